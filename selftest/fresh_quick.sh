#!/bin/bash
# selftest/fresh_quick.sh [seed ...]
# Re-enacts how the checks are used: for every check in MANIFEST.json remove its evidence file,
# run its quick command on the current /repo tree, and require exit 0, no VIOLATION line, and a
# rewritten evidence file that validates, reports no violation and is of this run (seed, tier).
# The last seed given (default: 1) is the one whose evidence stays in /verif/evidence.
# Developer aid; run it on the unchanged tree before committing evidence.
set -u
cd /verif || exit 2
export CARGO_NET_OFFLINE=true GOPROXY=off PIP_NO_INDEX=1 VERIF_TIER=quick
SEEDS="${*:-1}"
if [ -n "$(git -C /repo status --short | grep -v '^??')" ]; then echo "/repo has local changes; evidence of a modified tree must not be committed"; exit 2; fi
$(jq -r .setup_cmd MANIFEST.json) || { echo "setup failed"; exit 2; }
bad=0
for seed in $SEEDS; do
  export VERIF_SEED=$seed
  while IFS=$'\t' read -r id cmd ev; do
    rm -f "$ev"
    out=$(bash -c "$cmd" 2>&1); rc=$?
    line=$(echo "$out" | grep -E "^\[$id\] tier=" | tail -1)
    if [ $rc -ne 0 ] || echo "$out" | grep -q '^VIOLATION'; then echo "NOT QUIET seed=$seed $id rc=$rc"; echo "$out" | tail -5; bad=1; continue; fi
    if [ ! -s "$ev" ]; then echo "NO EVIDENCE seed=$seed $id"; bad=1; continue; fi
    ok=$(jq -r --arg id "$id" --argjson seed "$seed" '(.property_id==$id) and (.seed==$seed) and (.tier=="quick") and ((.violations//0)==0) and (.coverage.violation==null) and (.coverage.inconclusive==null) and (.coverage.distinct_nontrivial>=2) and (.coverage.evaluations>=1) and ((.coverage.samples|length)>=1)' "$ev")
    if [ "$ok" != "true" ]; then echo "BAD EVIDENCE seed=$seed $id"; bad=1; fi
    echo "seed=$seed ok $line" | cut -c1-200
  done < <(jq -r '.checks[] | [.property_id, .quick_cmd, .evidence_file] | @tsv' MANIFEST.json)
done
python3-vt validate.py || bad=1
exit $bad
