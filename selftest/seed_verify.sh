#!/bin/bash
# selftest/seed_verify.sh <seed-name> <property-id> <worktree>
# Phase A: confirm a seeded change produced by an independent sub-agent inside its own worktree
# (suite green with the change, demo fails with / passes without) and store it under
# seeded/<seed-name>/. Phase B is seed_check.sh. Developer aid; not part of any registered command.
set -u
NAME="$1"; PID="$2"; WT="$3"
OUT=/verif/seeded/$NAME
mkdir -p "$OUT"
cd "$WT" || exit 2
git diff -- quil-rs/src quil-cli/src > "$OUT/patch.diff"
cp quil-rs/tests/seeded_demo.rs "$OUT/seeded_demo.rs" 2>/dev/null
cp SEEDED.md "$OUT/SEEDED.md" 2>/dev/null
export CARGO_NET_OFFLINE=true
cargo test --offline -p quil-rs --test seeded_demo > "$OUT/demo_with.log" 2>&1; DEMO_WITH=$?
cargo nextest run --workspace --no-fail-fast --test-threads 8 --offline -E 'not binary(seeded_demo)' > "$OUT/suite_with.log" 2>&1; SUITE=$?
SUMMARY=$(grep -E "Summary" "$OUT/suite_with.log" | tail -1 | tr -s ' ')
cp "$OUT/patch.diff" /tmp/patch.$$.diff
git apply -R /tmp/patch.$$.diff
cargo test --offline -p quil-rs --test seeded_demo > "$OUT/demo_without.log" 2>&1; DEMO_WITHOUT=$?
git apply /tmp/patch.$$.diff; rm -f /tmp/patch.$$.diff
echo "$DEMO_WITH $SUITE $DEMO_WITHOUT $SUMMARY" > "$OUT/phaseA.txt"
echo "phase A $NAME: demo_with=$DEMO_WITH (want !=0) suite=$SUITE (want 0) demo_without=$DEMO_WITHOUT (want 0) $SUMMARY"
