#!/bin/bash
# selftest/all_thorough.sh — developer aid: every claimed check's thorough tier, one after another,
# evidence redirected (so a snapshot run does not touch committed evidence). One summary line each.
cd "$(dirname "$0")/.." || exit 9
./check --build || exit 9
export VERIF_EVIDENCE_DIR="${VERIF_EVIDENCE_DIR:-$PWD/evidence-thorough}"
for id in $(python3 -c 'import json;print(" ".join(c["property_id"] for c in json.load(open("MANIFEST.json"))["checks"]))'); do
  t0=$(date +%s)
  ./check "$id" thorough > "thorough-$id.log" 2>&1; rc=$?
  echo "$id rc=$rc $(( $(date +%s) - t0 ))s $(grep -E 'VIOLATION|INCONCLUSIVE|\[fuzz\]' "thorough-$id.log" | tail -2 | tr '\n' ' ' | cut -c1-300)"
  tail -1 "thorough-$id.log" | cut -c1-300
done
