#!/bin/bash
# selftest/seed_check.sh <seed-name> <property-id> [tier]
# Phase B: apply the stored patch to /repo, run the property's check, revert, record in meta.json.
set -u
NAME="$1"; PID="$2"; TIER="${3:-quick}"
OUT=/verif/seeded/$NAME
read DEMO_WITH SUITE DEMO_WITHOUT SUMMARY < "$OUT/phaseA.txt"
if [ -n "$(git -C /repo status --short | grep -v '^??')" ]; then echo "/repo has local changes; refusing"; exit 2; fi
if ! git -C /repo apply --check "$OUT/patch.diff" 2>/dev/null; then echo "   patch does not apply to /repo HEAD"; APPLY=fail; CHK=-1
else
  APPLY=ok
  git -C /repo apply "$OUT/patch.diff"
  cd /verif && VERIF_EVIDENCE_DIR="$OUT/evidence" ./check "$PID" "$TIER" > "$OUT/check_$TIER.log" 2>&1; CHK=$?
  git -C /repo checkout -- .
  echo "   $NAME: check $PID $TIER exit=$CHK: $(grep -E 'VIOLATION|INCONCLUSIVE' "$OUT/check_$TIER.log" | head -2)"
fi
python3 - "$NAME" "$PID" "$DEMO_WITH" "$SUITE" "$DEMO_WITHOUT" "$CHK" "$SUMMARY" "$APPLY" "$TIER" <<'PY'
import json,sys,os
name,pid,dw,suite,dwo,chk,summary,apply,tier=sys.argv[1:10]
p=f"/verif/seeded/{name}/meta.json"
meta=json.load(open(p)) if os.path.exists(p) else {}
meta.update({"seed":name,"property":pid,"demo_with_change_exit":int(dw),"suite_with_change_exit":int(suite),"suite_summary":summary,
 "demo_without_change_exit":int(dwo),"patch_applies_to_repo_head":apply,
 "confirmed": int(dw)!=0 and int(suite)==0 and int(dwo)==0,
 "ran":["cargo test -p quil-rs --test seeded_demo (with / without the change)","cargo nextest run --workspace -E 'not binary(seeded_demo)' (with the change)","git -C /repo apply patch.diff; ./check %s <tier>; git -C /repo checkout -- ."%pid]})
meta[f"check_{tier}_exit_with_patch"]=int(chk)
meta[f"detected_by_{tier}_check"]= int(chk)==1
json.dump(meta,open(p,"w"),indent=1)
PY
