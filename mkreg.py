#!/usr/bin/env python3
"""Developer aid: write a text-case regression file.  usage: mkreg.py <ID> <slug> <signature> <text-file|-> [message]"""
import json, sys
pid, slug, sig, src = sys.argv[1:5]
msg = sys.argv[5] if len(sys.argv) > 5 else ""
text = sys.stdin.read() if src == '-' else open(src).read()
out = f"/verif/regressions/{pid}-{slug}.json"
json.dump({"property": pid, "case": {"Text": text}, "signature": sig, "message": msg, "rendering": text}, open(out, "w"), indent=1)
print(out)
