//! Choice source: every generated case is a pure function of a `Vec<u32>` ("words").
//!
//! The words come from a proptest strategy (random phase) or from an explicit enumeration
//! (exhaustive phase).  Decoders are written so that word 0 selects the simplest alternative,
//! which is what makes proptest's element-wise shrinking of the vector meaningful.  When the
//! vector is exhausted every further choice is 0.

pub struct Src<'a> {
    words: &'a [u32],
    pos: usize,
    /// In direct mode `below(n)` is `min(word, n-1)` (used by enumerations, where the words are
    /// alphabet indices); in raw mode it is the monotone map `word * n >> 32`.
    direct: bool,
}

impl<'a> Src<'a> {
    pub fn new(words: &'a [u32], direct: bool) -> Self {
        Src { words, pos: 0, direct }
    }

    /// The whole underlying choice vector (for handing the same case to a helper process).
    pub fn all_words(&self) -> &[u32] {
        self.words
    }

    /// A second reader at the same position (to decode the same choices twice, e.g. under two
    /// naming schemes).
    pub fn fork(&self) -> Src<'a> {
        Src { words: self.words, pos: self.pos, direct: self.direct }
    }

    pub fn advance_to(&mut self, pos: usize) {
        self.pos = self.pos.max(pos);
    }

    pub fn is_direct(&self) -> bool {
        self.direct
    }

    pub fn used(&self) -> usize {
        self.pos
    }

    pub fn exhausted(&self) -> bool {
        self.pos >= self.words.len()
    }

    pub fn word(&mut self) -> u32 {
        let w = self.words.get(self.pos).copied().unwrap_or(0);
        self.pos += 1;
        w
    }

    /// Uniform in `0..n` (n ≥ 1), monotone in the underlying word.
    pub fn below(&mut self, n: usize) -> usize {
        debug_assert!(n >= 1);
        let w = self.word();
        if self.direct {
            (w as usize).min(n - 1)
        } else {
            ((w as u64 * n as u64) >> 32) as usize
        }
    }

    /// Inclusive integer range.
    pub fn range(&mut self, lo: i64, hi: i64) -> i64 {
        debug_assert!(hi >= lo);
        lo + self.below((hi - lo + 1) as usize) as i64
    }

    /// `true` with probability num/den; the zero word gives `false`.
    pub fn chance(&mut self, num: u32, den: u32) -> bool {
        let w = self.word();
        if self.direct {
            w != 0
        } else {
            // true for the top num/den fraction of words
            (w as u64) >= ((den - num) as u64 * (1u64 << 32)) / den as u64
        }
    }

    pub fn pick<'b, T>(&mut self, xs: &'b [T]) -> &'b T {
        &xs[self.below(xs.len())]
    }

    /// Index chosen proportionally to the weights; word 0 gives the first entry with weight > 0.
    pub fn weighted(&mut self, ws: &[u32]) -> usize {
        let total: u64 = ws.iter().map(|w| *w as u64).sum();
        debug_assert!(total > 0);
        if self.direct {
            return self.below(ws.len());
        }
        let w = self.word();
        let mut x = (w as u64 * total) >> 32;
        for (i, wt) in ws.iter().enumerate() {
            if x < *wt as u64 {
                return i;
            }
            x -= *wt as u64;
        }
        ws.len() - 1
    }

    /// Uniform in [0, 1).
    pub fn unit(&mut self) -> f64 {
        let a = self.word() as u64;
        let b = self.word() as u64;
        (((a << 21) ^ b) & ((1u64 << 53) - 1)) as f64 / (1u64 << 53) as f64
    }

    /// Uniform real in [lo, hi).
    pub fn real(&mut self, lo: f64, hi: f64) -> f64 {
        lo + (hi - lo) * self.unit()
    }
}
