//! KNOWN_FINDINGS.txt — read-only at run time.
//!
//! ```text
//! known: property=C18 id=<slug> sig=<signature or prefix*> replay=regressions/<file>.json what=<rest of line>
//! fixed: property=C14 id=<slug> commit=<sha> replay=regressions/<file>.json what=<rest of line>
//! ```
//! A `known` entry may list several `sig=` keys. `excl=` on a `known` entry names generator
//! exclusions that other properties honour while the finding is active.

use std::path::Path;

#[derive(Clone, Debug)]
pub struct Finding {
    pub fixed: bool,
    pub property: String,
    pub id: String,
    pub sigs: Vec<String>,
    pub replays: Vec<String>,
    pub commit: Option<String>,
    pub what: String,
}

pub fn load(verif_root: &Path) -> Vec<Finding> {
    let path = verif_root.join("KNOWN_FINDINGS.txt");
    let Ok(text) = std::fs::read_to_string(&path) else { return vec![] };
    let mut out = vec![];
    for line in text.lines() {
        let line = line.trim();
        if line.is_empty() || line.starts_with('#') {
            continue;
        }
        let (fixed, rest) = if let Some(r) = line.strip_prefix("known:") {
            (false, r)
        } else if let Some(r) = line.strip_prefix("fixed:") {
            (true, r)
        } else {
            continue;
        };
        let (kv, what) = match rest.find(" what=") {
            Some(i) => (&rest[..i], rest[i + 6..].to_string()),
            None => (rest, String::new()),
        };
        let mut f = Finding {
            fixed,
            property: String::new(),
            id: String::new(),
            sigs: vec![],
            replays: vec![],
            commit: None,
            what,
        };
        for tok in kv.split_whitespace() {
            if let Some((k, v)) = tok.split_once('=') {
                match k {
                    "property" => f.property = v.to_string(),
                    "id" => f.id = v.to_string(),
                    "sig" => f.sigs.push(v.to_string()),
                    "replay" => f.replays.push(v.to_string()),
                    "commit" => f.commit = Some(v.to_string()),
                    _ => {}
                }
            } else if f.fixed && f.commit.is_none() {
                // "fixed: property=<id> <commit> <what>" form
                f.commit = Some(tok.to_string());
            }
        }
        out.push(f);
    }
    out
}
