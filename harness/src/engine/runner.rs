//! Parent/child runner: streams in child processes, crash containment, shrinking, evidence.

use super::findings::{self, Finding};
use super::{guard, Case, Ctx, Failure, Outcome, Property, ReplayFile, Src, Tier};
use proptest::strategy::Strategy;
use proptest::test_runner::{Config, RngSeed, TestCaseError, TestError, TestRunner};
use serde::{Deserialize, Serialize};
use std::cell::RefCell;
use std::collections::{BTreeMap, HashSet};
use std::io::Write;
use std::os::unix::fs::FileExt;
use std::os::unix::process::{CommandExt, ExitStatusExt};
use std::path::{Path, PathBuf};
use std::process::{Command, Stdio};
use std::sync::atomic::{AtomicU64, Ordering};
use std::sync::Arc;
use std::time::{Duration, Instant};

pub const EXIT_OK: i32 = 0;
pub const EXIT_VIOLATION: i32 = 1;
pub const EXIT_INCONCLUSIVE: i32 = 2;
const EXIT_HANG: i32 = 97;
const EXIT_ONE_FAIL: i32 = 10;

pub fn verif_root() -> PathBuf {
    if let Ok(r) = std::env::var("VERIF_ROOT") {
        return PathBuf::from(r);
    }
    // harness/target/release/qv -> /verif
    let exe = std::env::current_exe().expect("current_exe");
    exe.ancestors().nth(4).map(|p| p.to_path_buf()).unwrap_or_else(|| PathBuf::from("/verif"))
}

pub fn seed_from_env() -> u64 {
    std::env::var("VERIF_SEED").ok().and_then(|s| s.trim().parse::<u64>().ok()).unwrap_or(1)
}

// ---------------------------------------------------------------------------------------------
// running one case in-process

pub enum CaseVerdict {
    Pass,
    Skip,
    Known(Vec<String>),
    Fail(Failure),
    HarnessError(String),
}

pub fn run_case(prop: &dyn Property, case: &Case, ctx: &Ctx) -> (CaseVerdict, Outcome) {
    let mut out = Outcome::default();
    let r = guard(|| match case {
        Case::Words { direct, words } => {
            let mut src = Src::new(words, *direct);
            prop.run(&mut src, ctx, &mut out)
        }
        Case::Text(t) => prop.run_text(t, ctx, &mut out),
    });
    let verdict = match r {
        Err(p) => {
            if p.in_harness() {
                CaseVerdict::HarnessError(format!("panic in harness at {}:{}: {}", p.file, p.line, p.msg))
            } else {
                let f = p.to_failure();
                match ctx.known(&f.sig) {
                    Some(id) => CaseVerdict::Known(vec![id.to_string()]),
                    None => CaseVerdict::Fail(f),
                }
            }
        }
        Ok(Err(f)) => {
            if f.sig.starts_with("harness:") {
                CaseVerdict::HarnessError(f.msg)
            } else {
                match ctx.known(&f.sig) {
                    Some(id) => CaseVerdict::Known(vec![id.to_string()]),
                    None => CaseVerdict::Fail(f),
                }
            }
        }
        Ok(Ok(())) => {
            if !out.known_hits.is_empty() {
                CaseVerdict::Known(out.known_hits.clone())
            } else if out.skip.is_some() {
                CaseVerdict::Skip
            } else {
                CaseVerdict::Pass
            }
        }
    };
    (verdict, out)
}

fn render_case(prop: &dyn Property, case: &Case, ctx_render: &Ctx) -> String {
    let (_, out) = run_case(prop, case, ctx_render);
    out.render.unwrap_or_else(|| match case {
        Case::Text(t) => format!("{t:?}"),
        Case::Words { words, .. } => format!("words{:?}", &words[..words.len().min(32)]),
    })
}

// ---------------------------------------------------------------------------------------------
// minimisation (used after proptest shrinking, for enumerated cases, and for crashes via children)

pub fn minimize(case: &Case, budget: usize, test: &mut dyn FnMut(&Case) -> bool) -> Case {
    let mut best = case.clone();
    let mut left = budget;
    match &mut best {
        Case::Text(_) => {
            loop {
                let Case::Text(cur) = &best else { unreachable!() };
                let chars: Vec<char> = cur.chars().collect();
                let mut improved = false;
                let mut chunk = (chars.len() / 2).max(1);
                'outer: while chunk >= 1 {
                    let mut start = 0;
                    while start < chars.len() {
                        if left == 0 {
                            return best;
                        }
                        let end = (start + chunk).min(chars.len());
                        let cand: String = chars[..start].iter().chain(chars[end..].iter()).collect();
                        left -= 1;
                        let c = Case::Text(cand);
                        if test(&c) {
                            best = c;
                            improved = true;
                            break 'outer;
                        }
                        start += chunk;
                    }
                    if chunk == 1 {
                        break;
                    }
                    chunk /= 2;
                }
                if !improved {
                    return best;
                }
            }
        }
        Case::Words { .. } => {
            loop {
                let Case::Words { direct, words } = &best else { unreachable!() };
                let direct = *direct;
                let words = words.clone();
                let mut improved = false;
                // drop the tail first, then chunks, then zero / halve single words
                let mut cands: Vec<Vec<u32>> = vec![];
                let mut n = words.len() / 2;
                while n >= 1 {
                    cands.push(words[..words.len() - n].to_vec());
                    n /= 2;
                }
                let mut chunk = (words.len() / 2).max(1);
                while chunk >= 1 {
                    let mut s = 0;
                    while s + chunk <= words.len() {
                        let mut v = words[..s].to_vec();
                        v.extend_from_slice(&words[s + chunk..]);
                        cands.push(v);
                        s += chunk;
                    }
                    if chunk == 1 {
                        break;
                    }
                    chunk /= 2;
                }
                for i in 0..words.len() {
                    if words[i] != 0 {
                        let mut v = words.clone();
                        v[i] = 0;
                        cands.push(v);
                        let mut v = words.clone();
                        v[i] /= 2;
                        cands.push(v);
                    }
                }
                for v in cands {
                    if left == 0 {
                        return best;
                    }
                    left -= 1;
                    let c = Case::Words { direct, words: v };
                    if test(&c) {
                        best = c;
                        improved = true;
                        break;
                    }
                }
                if !improved {
                    return best;
                }
            }
        }
    }
}

// ---------------------------------------------------------------------------------------------
// child: one stream

#[derive(Serialize, Deserialize, Default, Debug)]
pub struct StreamResult {
    pub evaluations: u64,
    pub enumerated: u64,
    pub nontrivial: u64,
    pub nontrivial_keys: Vec<u64>,
    pub classes: BTreeMap<String, u64>,
    pub skips: BTreeMap<String, u64>,
    pub known_hits: BTreeMap<String, u64>,
    pub samples: Vec<String>,
    pub failure: Option<ReplayFile>,
    pub harness_error: Option<String>,
    pub last_index: u64,
    pub words_exhausted: u64,
}

struct Slot {
    file: std::fs::File,
}

impl Slot {
    fn write(&self, index: u64, case: &Case) {
        let mut buf: Vec<u8> = Vec::with_capacity(64);
        buf.extend_from_slice(&index.to_le_bytes());
        match case {
            Case::Words { direct, words } => {
                buf.push(0);
                buf.push(*direct as u8);
                buf.extend_from_slice(&(words.len() as u32).to_le_bytes());
                for w in words {
                    buf.extend_from_slice(&w.to_le_bytes());
                }
            }
            Case::Text(t) => {
                buf.push(1);
                buf.push(0);
                buf.extend_from_slice(&(t.len() as u32).to_le_bytes());
                buf.extend_from_slice(t.as_bytes());
            }
        }
        let _ = self.file.write_all_at(&buf, 0);
    }
}

fn read_slot(path: &Path) -> Option<(u64, Case)> {
    let buf = std::fs::read(path).ok()?;
    if buf.len() < 14 {
        return None;
    }
    let index = u64::from_le_bytes(buf[0..8].try_into().ok()?);
    let tag = buf[8];
    let direct = buf[9] != 0;
    let len = u32::from_le_bytes(buf[10..14].try_into().ok()?) as usize;
    if tag == 0 {
        if buf.len() < 14 + 4 * len {
            return None;
        }
        let words = (0..len)
            .map(|i| u32::from_le_bytes(buf[14 + 4 * i..18 + 4 * i].try_into().unwrap()))
            .collect();
        Some((index, Case::Words { direct, words }))
    } else {
        if buf.len() < 14 + len {
            return None;
        }
        Some((index, Case::Text(String::from_utf8_lossy(&buf[14..14 + len]).into_owned())))
    }
}

pub struct StreamArgs {
    pub tier: Tier,
    pub seed: u64,
    pub stream: u64,
    pub nstreams: u64,
    pub outdir: PathBuf,
    pub resume: u64,
    pub active: Vec<String>,
    pub known_sigs: Vec<(String, String)>,
}

struct StreamState<'a> {
    prop: &'a dyn Property,
    ctx: Ctx,
    ctx_render: Ctx,
    res: StreamResult,
    keys: HashSet<u64>,
    slot: Slot,
    index: u64,
    resume: u64,
    started: Arc<AtomicU64>,
    epoch: Instant,
    first_fail_sig: Option<String>,
    stop: bool,
}

enum Step {
    Pass,
    Fail(Failure),
}

impl<'a> StreamState<'a> {
    /// Run one case with full accounting (not used while shrinking).
    fn step(&mut self, case: &Case) -> Step {
        let idx = self.index;
        self.index += 1;
        if idx < self.resume {
            return Step::Pass;
        }
        self.slot.write(idx, case);
        self.started.store(self.epoch.elapsed().as_millis() as u64 + 1, Ordering::SeqCst);
        let t_case = Instant::now();
        let (verdict, out) = run_case(self.prop, case, &self.ctx);
        // developer aid: QV_SLOW_MS=<n> lists the cases that take longer than n milliseconds
        if let Some(limit) = std::env::var("QV_SLOW_MS").ok().and_then(|v| v.parse::<u128>().ok()) {
            if t_case.elapsed().as_millis() > limit {
                eprintln!("[slow] {} ms: {}", t_case.elapsed().as_millis(), render_case(self.prop, case, &self.ctx_render));
            }
        }
        self.started.store(0, Ordering::SeqCst);
        self.res.last_index = idx;
        self.res.evaluations += 1;
        for c in &out.classes {
            *self.res.classes.entry(c.to_string()).or_insert(0) += 1;
        }
        if let Some(s) = out.skip {
            *self.res.skips.entry(s.to_string()).or_insert(0) += 1;
        }
        match verdict {
            CaseVerdict::Pass | CaseVerdict::Skip => {
                if out.nontrivial && out.skip.is_none() {
                    self.res.nontrivial += 1;
                    if self.keys.insert(out.key) {
                        let n = self.keys.len();
                        if n <= 2 || (n % 997 == 0 && self.res.samples.len() < 6) {
                            let r = render_case(self.prop, case, &self.ctx_render);
                            self.res.samples.push(r);
                        }
                    }
                }
                Step::Pass
            }
            CaseVerdict::Known(ids) => {
                for id in ids {
                    *self.res.known_hits.entry(id).or_insert(0) += 1;
                }
                Step::Pass
            }
            CaseVerdict::Fail(f) => Step::Fail(f),
            CaseVerdict::HarnessError(m) => {
                self.res.harness_error = Some(format!("{m} [case {case:?}]"));
                self.stop = true;
                Step::Pass
            }
        }
    }

    /// Quiet evaluation used while shrinking: does the case still fail with the same signature?
    fn still_fails(&mut self, case: &Case, sig: &str) -> bool {
        self.slot.write(self.index, case);
        self.started.store(self.epoch.elapsed().as_millis() as u64 + 1, Ordering::SeqCst);
        let (verdict, _) = run_case(self.prop, case, &self.ctx);
        self.started.store(0, Ordering::SeqCst);
        matches!(verdict, CaseVerdict::Fail(f) if f.sig == sig)
    }

    fn finish_failure(&mut self, case: Case, f: Failure) {
        let sig = f.sig.clone();
        let mut test = |c: &Case| self.still_fails(c, &sig);
        let small = minimize(&case, 3000, &mut test);
        let (verdict, _) = run_case(self.prop, &small, &self.ctx);
        let f2 = match verdict {
            CaseVerdict::Fail(f2) => f2,
            _ => f,
        };
        let rendering = render_case(self.prop, &small, &self.ctx_render);
        self.res.failure = Some(ReplayFile {
            property: self.prop.id().to_string(),
            case: small,
            signature: f2.sig,
            message: f2.msg,
            rendering,
            tier: self.ctx.tier.name().to_string(),
        });
        self.stop = true;
    }
}

pub fn run_stream(prop: &dyn Property, args: StreamArgs) -> i32 {
    std::fs::create_dir_all(&args.outdir).ok();
    let slot_path = args.outdir.join(format!("slot-{}", args.stream));
    let file = std::fs::OpenOptions::new().create(true).write(true).read(true).truncate(true).open(&slot_path).expect("slot");
    let started = Arc::new(AtomicU64::new(0));
    let epoch = Instant::now();
    // watchdog
    {
        let started = started.clone();
        // QV_WATCHDOG_MS: developer aid to exercise the expiry path
        let limit_ms = std::env::var("QV_WATCHDOG_MS").ok().and_then(|v| v.parse::<u64>().ok()).unwrap_or(prop.watchdog_s() * 1000);
        let hang_path = args.outdir.join(format!("hang-{}", args.stream));
        std::thread::spawn(move || loop {
            std::thread::sleep(Duration::from_millis(250));
            let s = started.load(Ordering::SeqCst);
            if s != 0 {
                let now = epoch.elapsed().as_millis() as u64 + 1;
                if now.saturating_sub(s) > limit_ms {
                    let _ = std::fs::write(&hang_path, b"hang");
                    std::process::exit(EXIT_HANG);
                }
            }
        });
    }
    let mk_ctx = |render: bool| Ctx {
        tier: args.tier,
        render,
        seed: args.seed,
        active: args.active.clone(),
        known_sigs: args.known_sigs.clone(),
    };
    let state = RefCell::new(StreamState {
        prop,
        ctx: mk_ctx(false),
        ctx_render: mk_ctx(true),
        res: StreamResult::default(),
        keys: HashSet::new(),
        slot: Slot { file },
        index: 0,
        resume: args.resume,
        started,
        epoch,
        first_fail_sig: None,
        stop: false,
    });

    // phase 1: enumeration shard
    {
        let mut f = |case: Case| -> bool {
            let mut st = state.borrow_mut();
            if st.stop {
                return false;
            }
            st.res.enumerated += 1;
            match st.step(&case) {
                Step::Pass => !st.stop,
                Step::Fail(fl) => {
                    st.finish_failure(case, fl);
                    false
                }
            }
        };
        prop.enumerate(args.tier, args.stream, args.nstreams, &mut f);
    }

    // phase 2: random cases through proptest
    let total = prop.cases(args.tier);
    let per_stream = total / args.nstreams + if args.stream < total % args.nstreams { 1 } else { 0 };
    if !state.borrow().stop && per_stream > 0 {
        let mut config = Config::default();
        config.cases = per_stream.min(u32::MAX as u64) as u32;
        config.failure_persistence = None;
        config.max_shrink_iters = 4000;
        config.rng_seed = RngSeed::Fixed(
            args.seed.wrapping_mul(1_000_003).wrapping_add(args.stream).wrapping_mul(0x9E37_79B9_7F4A_7C15) ^ super::hash_of(prop.id()),
        );
        let mut runner = TestRunner::new(config);
        let max_words = prop.max_words();
        // lengths are spread so that both short and long vectors occur; an exhausted vector
        // yields zero words, i.e. the simplest remaining choices
        let strat = (0usize..=3).prop_flat_map(move |k| {
            let hi = match k {
                0 => (max_words / 8).max(1),
                1 => (max_words / 2).max(1),
                _ => max_words.max(1),
            };
            proptest::collection::vec(proptest::num::u32::ANY, 0..=hi)
        });
        let result = runner.run(&strat, |words| {
            let mut st = state.borrow_mut();
            if st.stop && st.first_fail_sig.is_none() {
                return Ok(());
            }
            let case = Case::Words { direct: false, words };
            if let Some(sig) = st.first_fail_sig.clone() {
                // shrinking: only the same root cause counts
                return if st.still_fails(&case, &sig) {
                    Err(TestCaseError::fail(sig))
                } else {
                    Ok(())
                };
            }
            match st.step(&case) {
                Step::Pass => Ok(()),
                Step::Fail(f) => {
                    st.first_fail_sig = Some(f.sig.clone());
                    Err(TestCaseError::fail(f.sig))
                }
            }
        });
        if let Err(TestError::Fail(_, words)) = result {
            let mut st = state.borrow_mut();
            let case = Case::Words { direct: false, words };
            let sig = st.first_fail_sig.clone().unwrap_or_default();
            let (verdict, _) = run_case(prop, &case, &st.ctx);
            let f = match verdict {
                CaseVerdict::Fail(f) => f,
                _ => Failure { sig, msg: "failure did not reproduce after shrinking".into() },
            };
            st.finish_failure(case, f);
        } else if let Err(TestError::Abort(r)) = result {
            state.borrow_mut().res.harness_error = Some(format!("proptest aborted: {r}"));
        }
    }

    let mut st = state.into_inner();
    st.res.nontrivial_keys = st.keys.into_iter().collect();
    let out = args.outdir.join(format!("stream-{}.json", args.stream));
    let tmp = args.outdir.join(format!("stream-{}.json.tmp", args.stream));
    std::fs::write(&tmp, serde_json::to_vec(&st.res).expect("serialize")).expect("write result");
    std::fs::rename(&tmp, &out).expect("rename");
    0
}

/// `qv one`: run a single case, print the verdict as JSON; exit 0 pass, 10 fail.
pub fn run_one(prop: &dyn Property, case: &Case, active: Vec<String>, known_sigs: Vec<(String, String)>, tier: Tier) -> i32 {
    let ctx = Ctx { tier, render: true, seed: 0, active, known_sigs: vec![] };
    let _ = known_sigs;
    let (verdict, out) = run_case(prop, case, &ctx);
    let (code, sig, msg) = match verdict {
        CaseVerdict::Pass | CaseVerdict::Skip | CaseVerdict::Known(_) => (0, String::new(), String::new()),
        CaseVerdict::Fail(f) => (EXIT_ONE_FAIL, f.sig, f.msg),
        CaseVerdict::HarnessError(m) => (3, "harness".into(), m),
    };
    let j = serde_json::json!({"sig": sig, "msg": msg, "render": out.render, "skip": out.skip});
    println!("{j}");
    code
}

// ---------------------------------------------------------------------------------------------
// parent

struct OneResult {
    /// None = pass
    failure: Option<Failure>,
    render: String,
    infra: Option<String>,
}

/// Tier under which one-case children decode their case (set by `check` / `replay`).
static ONE_TIER_THOROUGH: std::sync::atomic::AtomicBool = std::sync::atomic::AtomicBool::new(false);

fn spawn_one(prop_id: &str, case: &Case, scratch: &Path, active: &[String], timeout_s: u64) -> OneResult {
    static COUNTER: AtomicU64 = AtomicU64::new(0);
    let n = COUNTER.fetch_add(1, Ordering::SeqCst);
    let path = scratch.join(format!("one-{}-{n}.json", std::process::id()));
    std::fs::create_dir_all(scratch).ok();
    std::fs::write(&path, serde_json::to_vec(case).unwrap()).unwrap();
    let exe = std::env::current_exe().unwrap();
    let mut child = Command::new(exe)
        .arg("one")
        .arg(prop_id)
        .arg(&path)
        .arg("--active")
        .arg(active.join(","))
        .arg("--tier")
        .arg(if ONE_TIER_THOROUGH.load(Ordering::SeqCst) { "thorough" } else { "quick" })
        .stdout(Stdio::piped())
        .stderr(Stdio::piped())
        .spawn()
        .expect("spawn one");
    let deadline = Instant::now() + Duration::from_secs(timeout_s);
    let status = loop {
        match child.try_wait() {
            Ok(Some(s)) => break Some(s),
            Ok(None) => {
                if Instant::now() > deadline {
                    let _ = child.kill();
                    let _ = child.wait();
                    break None;
                }
                std::thread::sleep(Duration::from_millis(2));
            }
            Err(_) => break None,
        }
    };
    let _ = std::fs::remove_file(&path);
    let mut stdout = String::new();
    let mut stderr = String::new();
    use std::io::Read;
    if let Some(mut o) = child.stdout.take() {
        let _ = o.read_to_string(&mut stdout);
    }
    if let Some(mut e) = child.stderr.take() {
        let _ = e.read_to_string(&mut stderr);
    }
    let Some(status) = status else {
        return OneResult {
            failure: Some(Failure { sig: "hang".into(), msg: format!("no result within {timeout_s}s") }),
            render: String::new(),
            infra: None,
        };
    };
    if let Some(sig) = status.signal() {
        let how = death_description(sig, &stderr);
        return OneResult {
            failure: Some(Failure { sig: format!("crash:{how}"), msg: format!("child died: {how}; stderr tail: {}", tail(&stderr, 300)) }),
            render: String::new(),
            infra: None,
        };
    }
    let v: serde_json::Value = serde_json::from_str(stdout.trim()).unwrap_or(serde_json::Value::Null);
    let render = v.get("render").and_then(|r| r.as_str()).unwrap_or("").to_string();
    match status.code() {
        Some(0) => OneResult { failure: None, render, infra: None },
        Some(EXIT_ONE_FAIL) => OneResult {
            failure: Some(Failure {
                sig: v.get("sig").and_then(|r| r.as_str()).unwrap_or("").to_string(),
                msg: v.get("msg").and_then(|r| r.as_str()).unwrap_or("").to_string(),
            }),
            render,
            infra: None,
        },
        c => OneResult { failure: None, render, infra: Some(format!("one-case child exited with {c:?}: {} {}", stdout, tail(&stderr, 500))) },
    }
}

fn tail(s: &str, n: usize) -> String {
    let chars: Vec<char> = s.chars().collect();
    chars[chars.len().saturating_sub(n)..].iter().collect()
}

fn death_description(signal: i32, stderr: &str) -> String {
    if stderr.contains("has overflowed its stack") {
        "stack-overflow".to_string()
    } else {
        match signal {
            6 => "SIGABRT".to_string(),
            9 => "SIGKILL".to_string(),
            11 => "SIGSEGV".to_string(),
            n => format!("signal-{n}"),
        }
    }
}

fn sig_matches(pat: &str, sig: &str) -> bool {
    if let Some(p) = pat.strip_suffix('*') {
        sig.starts_with(p)
    } else {
        pat == sig
    }
}

fn write_replay(root: &Path, rf: &ReplayFile) -> PathBuf {
    let dir = root.join("replays");
    std::fs::create_dir_all(&dir).ok();
    let name = format!("{}-{:016x}.json", rf.property, super::hash_of(&(rf.signature.as_str(), format!("{:?}", rf.case))));
    let path = dir.join(name);
    std::fs::write(&path, serde_json::to_string_pretty(rf).unwrap()).ok();
    path
}

pub struct CheckArgs {
    pub tier: Tier,
    pub seed: u64,
}

struct Merged {
    res: StreamResult,
    keys: HashSet<u64>,
    truncated_streams: u64,
}

pub fn check(prop: &dyn Property, all: &dyn Fn(&str) -> Option<&'static dyn Property>, args: CheckArgs) -> i32 {
    let t0 = Instant::now();
    let root = verif_root();
    let id = prop.id();
    ONE_TIER_THOROUGH.store(args.tier == Tier::Thorough, Ordering::SeqCst);
    let run_dir = root.join("harness/target/run").join(format!("{id}-{}", args.tier.name()));
    let _ = std::fs::remove_dir_all(&run_dir);
    std::fs::create_dir_all(&run_dir).expect("run dir");
    let all_findings = findings::load(&root);

    // ---- replay tier -----------------------------------------------------------------------
    let mut active: Vec<String> = vec![];
    let mut known_sigs: Vec<(String, String)> = vec![];
    let mut known_lines: Vec<String> = vec![];
    let mut regressions_replayed = 0u64;
    let mut listed: HashSet<String> = HashSet::new();
    for f in &all_findings {
        for r in &f.replays {
            listed.insert(r.clone());
        }
    }
    // findings of other properties first (only to learn whether they are active)
    for f in all_findings.iter().filter(|f| !f.fixed && f.property != id) {
        if let Some(other) = all(&f.property) {
            let mut still = false;
            for r in &f.replays {
                if let Some(rf) = load_replay(&root.join(r)) {
                    let one = spawn_one(other.id(), &rf.case, &run_dir, &[], other.watchdog_s() + 5);
                    if one.failure.is_some() {
                        still = true;
                    }
                }
            }
            if still {
                active.push(f.id.clone());
            }
        }
    }
    let mine: Vec<&Finding> = all_findings.iter().filter(|f| f.property == id).collect();
    for f in &mine {
        let mut still = false;
        for r in &f.replays {
            let path = root.join(r);
            let Some(rf) = load_replay(&path) else {
                eprintln!("[{id}] cannot read regression {r}");
                return EXIT_INCONCLUSIVE;
            };
            regressions_replayed += 1;
            let one = spawn_one(id, &rf.case, &run_dir, &active, prop.watchdog_s() + 5);
            if let Some(m) = one.infra {
                eprintln!("[{id}] infrastructure problem replaying {r}: {m}");
                return EXIT_INCONCLUSIVE;
            }
            if !rf.rendering.is_empty() && !one.render.is_empty() && rf.rendering != one.render && matches!(rf.case, Case::Words { .. }) {
                // not fatal: the rendering goes through the library's printer, which a change under
                // test may legitimately alter; on the unchanged tree this line must never appear
                eprintln!("[{id}] WARNING regression {r} may be stale: its words now render differently\n  stored: {}\n  now:    {}", rf.rendering, one.render);
            }
            if let Some(fl) = one.failure {
                if f.fixed {
                    println!("[{id}] regression of a fixed finding fails again: {} ({})", f.id, fl.msg);
                    println!("VIOLATION property={id} replay={}", path.display());
                    write_evidence_violation(&root, prop, &args, t0, &path, &fl);
                    return EXIT_VIOLATION;
                }
                if f.sigs.iter().any(|p| sig_matches(p, &fl.sig)) {
                    still = true;
                } else {
                    println!(
                        "[{id}] regression {r} of known finding {} fails with an unlisted signature {} ({})",
                        f.id, fl.sig, fl.msg
                    );
                    println!("VIOLATION property={id} replay={}", path.display());
                    write_evidence_violation(&root, prop, &args, t0, &path, &fl);
                    return EXIT_VIOLATION;
                }
            }
        }
        if !f.fixed && still {
            println!("KNOWN-FINDING: property={id} {} [{}]", f.what, f.id);
            known_lines.push(f.id.clone());
            active.push(f.id.clone());
            for s in &f.sigs {
                known_sigs.push((s.clone(), f.id.clone()));
            }
        }
    }
    // unlisted regression files of this property are plain regression tests
    if let Ok(rd) = std::fs::read_dir(root.join("regressions")) {
        let mut names: Vec<_> = rd.flatten().map(|e| e.file_name().to_string_lossy().into_owned()).collect();
        names.sort();
        for n in names {
            let rel = format!("regressions/{n}");
            if !n.starts_with(&format!("{id}-")) || listed.contains(&rel) {
                continue;
            }
            let path = root.join(&rel);
            if let Some(rf) = load_replay(&path) {
                regressions_replayed += 1;
                let one = spawn_one(id, &rf.case, &run_dir, &active, prop.watchdog_s() + 5);
                if let Some(fl) = one.failure {
                    if known_sigs.iter().any(|(p, _)| sig_matches(p, &fl.sig)) {
                        continue;
                    }
                    println!("[{id}] regression {rel} fails: {}", fl.msg);
                    println!("VIOLATION property={id} replay={}", path.display());
                    write_evidence_violation(&root, prop, &args, t0, &path, &fl);
                    return EXIT_VIOLATION;
                }
            }
        }
    }

    // ---- generated search --------------------------------------------------------------------
    let nstreams: u64 = std::env::var("VERIF_STREAMS").ok().and_then(|s| s.parse().ok()).unwrap_or(args.tier.pick(8, 16));
    let exe = std::env::current_exe().unwrap();
    let global_deadline = Instant::now() + Duration::from_secs(args.tier.pick(900, 6 * 3600));
    let known_arg: String = known_sigs.iter().map(|(s, i)| format!("{s}={i}")).collect::<Vec<_>>().join(",");
    let spawn_stream = |stream: u64, resume: u64| {
        let _ = std::fs::remove_file(run_dir.join(format!("slot-{stream}")));
        Command::new(&exe)
            .arg("stream")
            .arg(id)
            .arg(args.tier.name())
            .arg(args.seed.to_string())
            .arg(stream.to_string())
            .arg(nstreams.to_string())
            .arg(&run_dir)
            .arg("--resume")
            .arg(resume.to_string())
            .arg("--active")
            .arg(active.join(","))
            .arg("--known")
            .arg(&known_arg)
            .stdout(Stdio::null())
            .stderr(Stdio::piped())
            .spawn()
            .expect("spawn stream")
    };
    // watchdog expiries inside a stream that turned out to be machine load (the case finished alone)
    let mut load_reruns = 0u64;
    struct Running {
        stream: u64,
        child: std::process::Child,
        restarts: u32,
    }
    let mut running: Vec<Running> = (0..nstreams).map(|s| Running { stream: s, child: spawn_stream(s, 0), restarts: 0 }).collect();
    let mut merged = Merged { res: StreamResult::default(), keys: HashSet::new(), truncated_streams: 0 };
    let mut violation: Option<ReplayFile> = None;
    let mut inconclusive: Option<String> = None;

    while !running.is_empty() {
        let mut i = 0;
        let mut progressed = false;
        while i < running.len() {
            let done = match running[i].child.try_wait() {
                Ok(Some(s)) => Some(s),
                Ok(None) => None,
                Err(e) => {
                    inconclusive = Some(format!("wait failed: {e}"));
                    None
                }
            };
            if let Some(status) = done {
                progressed = true;
                let mut r = running.swap_remove(i);
                let mut stderr = String::new();
                use std::io::Read;
                if let Some(mut e) = r.child.stderr.take() {
                    let _ = e.read_to_string(&mut stderr);
                }
                let stream = r.stream;
                if status.code() == Some(0) {
                    let path = run_dir.join(format!("stream-{stream}.json"));
                    match std::fs::read(&path).ok().and_then(|b| serde_json::from_slice::<StreamResult>(&b).ok()) {
                        Some(sr) => merge(&mut merged, sr, &mut violation, &mut inconclusive),
                        None => inconclusive = Some(format!("stream {stream}: unreadable result")),
                    }
                } else if status.code() == Some(EXIT_HANG) || status.signal().is_some() {
                    let how = if status.code() == Some(EXIT_HANG) {
                        "hang".to_string()
                    } else {
                        death_description(status.signal().unwrap(), &stderr)
                    };
                    match read_slot(&run_dir.join(format!("slot-{stream}"))) {
                        None => inconclusive = Some(format!("stream {stream} died ({how}) before any case")),
                        Some((index, case))
                            if how == "hang" && violation.is_none() && {
                                // A watchdog expiry inside a stream may be machine load. Re-run the case
                                // alone with four times the budget: if it comes back, the expiry says
                                // nothing about the property and the stream carries on — behind the case
                                // if it passed alone, at the case (to report and shrink it in the usual
                                // way) if it failed alone.
                                let o = spawn_one(id, &case, &run_dir, &active, 4 * prop.watchdog_s() + 10);
                                match o.failure {
                                    Some(ref f) if f.sig == "hang" => false,
                                    _ if r.restarts >= 40 => {
                                        inconclusive = Some(format!(
                                            "stream {stream}: more than 40 watchdog expiries on cases that finish when run alone (machine load?); last: {}",
                                            short_case(&case)
                                        ));
                                        true
                                    }
                                    Some(_) => {
                                        load_reruns += 1;
                                        running.push(Running { stream, child: spawn_stream(stream, index), restarts: r.restarts + 1 });
                                        true
                                    }
                                    None => {
                                        load_reruns += 1;
                                        merged.res.evaluations += 1;
                                        running.push(Running { stream, child: spawn_stream(stream, index + 1), restarts: r.restarts + 1 });
                                        true
                                    }
                                }
                            } => {}
                        Some((index, case)) => match prop.classify_death(&how, &case) {
                            None => {
                                inconclusive = Some(format!(
                                    "stream {stream}: {how} on case #{index}; inconclusive for this property: {}",
                                    short_case(&case)
                                ));
                            }
                            Some(fl) => {
                                let known = known_sigs.iter().find(|(p, _)| sig_matches(p, &fl.sig)).map(|(_, i)| i.clone());
                                if let Some(kid) = known {
                                    *merged.res.known_hits.entry(kid).or_insert(0) += 1;
                                    merged.res.evaluations += 1;
                                    if r.restarts < 40 {
                                        running.push(Running { stream, child: spawn_stream(stream, index + 1), restarts: r.restarts + 1 });
                                    } else {
                                        merged.truncated_streams += 1;
                                    }
                                } else if violation.is_none() {
                                    // minimise through children, same signature only
                                    let sig = fl.sig.clone();
                                    let wd = prop.watchdog_s() + 5;
                                    let mut test = |c: &Case| {
                                        let o = spawn_one(id, c, &run_dir, &active, wd);
                                        matches!(o.failure, Some(f) if f.sig == sig)
                                    };
                                    // confirm it reproduces in isolation before minimising
                                    let small = if test(&case) { minimize(&case, 250, &mut test) } else { case.clone() };
                                    violation = Some(ReplayFile {
                                        property: id.to_string(),
                                        rendering: short_case(&small),
                                        case: small,
                                        signature: fl.sig,
                                        message: format!("{} (stderr tail: {})", fl.msg, tail(&stderr, 300)),
                                        tier: args.tier.name().to_string(),
                                    });
                                }
                            }
                        },
                    }
                } else {
                    inconclusive = Some(format!("stream {stream} exited with {:?}: {}", status.code(), tail(&stderr, 800)));
                }
            } else {
                i += 1;
            }
        }
        if violation.is_some() || inconclusive.is_some() {
            for r in running.iter_mut() {
                let _ = r.child.kill();
                let _ = r.child.wait();
            }
            running.clear();
            break;
        }
        if Instant::now() > global_deadline {
            for r in running.iter_mut() {
                let _ = r.child.kill();
                let _ = r.child.wait();
            }
            running.clear();
            inconclusive = Some("global time budget exhausted".into());
            break;
        }
        if !progressed {
            std::thread::sleep(Duration::from_millis(20));
        }
    }

    // ---- coverage-guided stage (thorough tier) -----------------------------------------------
    let mut guided_report: Option<serde_json::Value> = None;
    if args.tier == Tier::Thorough && violation.is_none() && inconclusive.is_none() && prop.guided() {
        let g = guided_stage(prop, &root, &run_dir, args.seed, &active, &known_sigs);
        if let Some(rf) = g.violation {
            violation = Some(rf);
        }
        if let Some(m) = g.inconclusive {
            inconclusive = Some(m);
        }
        for (k, n) in g.known_hits {
            *merged.res.known_hits.entry(k).or_insert(0) += n;
        }
        guided_report = Some(g.report);
    }

    // ---- verdict & evidence --------------------------------------------------------------------
    let wall = t0.elapsed().as_secs_f64();
    let distinct = merged.keys.len() as u64;
    let mut floors_missed = vec![];
    if violation.is_none() && inconclusive.is_none() {
        for (class, floor) in prop.floors() {
            let n = merged.res.classes.get(class).copied().unwrap_or(0);
            let frac = n as f64 / merged.res.evaluations.max(1) as f64;
            if frac < floor {
                floors_missed.push(format!("class '{class}' {frac:.4} < floor {floor}"));
            }
        }
    }
    let mut replay_path = None;
    if let Some(rf) = &violation {
        replay_path = Some(write_replay(&root, rf));
    }
    let mut coverage = serde_json::json!({
        "evaluations": merged.res.evaluations,
        "distinct_nontrivial": distinct,
        "nontrivial_total": merged.res.nontrivial,
        "rule": prop.rule(),
        "samples": merged.res.samples.iter().take(12).collect::<Vec<_>>(),
        "classes": merged.res.classes,
        "skipped": merged.res.skips,
        "known_findings_hit": merged.res.known_hits,
        "known_findings_active": known_lines,
        "enumerated": merged.res.enumerated,
        "regressions_replayed": regressions_replayed,
        "exhaustive": prop.exhaustive(args.tier),
        "streams": nstreams,
        "truncated_streams": merged.truncated_streams,
        "watchdog_expiries_rerun_alone": load_reruns,
    });
    if let Some(e) = prop.exhaustive_part(args.tier) {
        coverage["exhaustive_part"] = serde_json::Value::String(e);
    }
    if let Some(g) = guided_report {
        coverage["coverage_guided"] = g;
    }
    if let Some(rf) = &violation {
        coverage["violation"] = serde_json::json!({"signature": rf.signature, "message": rf.message, "rendering": rf.rendering});
    }
    if let Some(m) = &inconclusive {
        coverage["inconclusive"] = serde_json::Value::String(m.clone());
    }
    let ev = serde_json::json!({
        "property_id": id,
        "tier": args.tier.name(),
        "seed": args.seed,
        "level": "exploration",
        "coverage": coverage,
        "assumptions": prop.assumptions(),
        "wall_s": wall,
        "violations": if violation.is_some() { 1 } else { 0 },
    });
    let evdir = evidence_dir(&root);
    std::fs::create_dir_all(&evdir).ok();
    std::fs::write(evdir.join(format!("{id}.json")), serde_json::to_string_pretty(&ev).unwrap()).expect("write evidence");

    println!(
        "[{id}] tier={} seed={} evaluations={} enumerated={} distinct_nontrivial={} known_hits={:?} skipped={:?} wall={:.1}s",
        args.tier.name(),
        args.seed,
        merged.res.evaluations,
        merged.res.enumerated,
        distinct,
        merged.res.known_hits,
        merged.res.skips,
        wall
    );
    if let (Some(rf), Some(p)) = (&violation, &replay_path) {
        println!("[{id}] {}: {}", rf.signature, rf.message);
        println!("[{id}] case: {}", rf.rendering);
        println!("VIOLATION property={id} replay={}", p.display());
        return EXIT_VIOLATION;
    }
    if let Some(m) = inconclusive {
        println!("[{id}] INCONCLUSIVE: {m}");
        return EXIT_INCONCLUSIVE;
    }
    if !floors_missed.is_empty() {
        println!("[{id}] INCONCLUSIVE (generator health): {}", floors_missed.join("; "));
        return EXIT_INCONCLUSIVE;
    }
    if distinct < 2 {
        println!("[{id}] INCONCLUSIVE: fewer than two distinct non-trivial cases");
        return EXIT_INCONCLUSIVE;
    }
    let _ = std::io::stdout().flush();
    EXIT_OK
}

struct Guided {
    violation: Option<ReplayFile>,
    inconclusive: Option<String>,
    known_hits: BTreeMap<String, u64>,
    report: serde_json::Value,
}

/// Coverage-guided search over choice vectors (libFuzzer through cargo-fuzz, target
/// `guided/fuzz_targets/prop_words.rs`, built by `./check <ID> thorough`). The target runs the
/// property's own generator and oracle on the words decoded from the input; every input it saves is
/// confirmed here through a one-case child of this binary, minimised, and reported as an ordinary
/// choice-vector replay file.
fn guided_stage(prop: &dyn Property, root: &Path, run_dir: &Path, seed: u64, active: &[String], known_sigs: &[(String, String)]) -> Guided {
    let id = prop.id();
    let mut g = Guided { violation: None, inconclusive: None, known_hits: BTreeMap::new(), report: serde_json::json!({"ran": false}) };
    let bin = root.join("guided/target/x86_64-unknown-linux-gnu/release/prop_words");
    if std::env::var("VERIF_GUIDED").map(|v| v == "0").unwrap_or(false) {
        g.report = serde_json::json!({"ran": false, "why": "VERIF_GUIDED=0"});
        return g;
    }
    if !bin.exists() {
        // `./check` builds the target before a thorough run and reports a build failure itself
        g.report = serde_json::json!({"ran": false, "why": "guided/target/.../prop_words is not built (cargo +nightly fuzz unavailable?)"});
        eprintln!("[{id}] coverage-guided stage skipped: {} not built", bin.display());
        return g;
    }
    let env_u64 = |name: &str, default: u64| std::env::var(name).ok().and_then(|v| v.parse::<u64>().ok()).unwrap_or(default);
    let workers = env_u64("VERIF_GUIDED_WORKERS", 12);
    let runs = env_u64("VERIF_GUIDED_RUNS", prop.guided_runs());
    let dir = run_dir.join("guided");
    let _ = std::fs::remove_dir_all(&dir);
    let corpus = dir.join("corpus");
    let artifacts = dir.join("artifacts");
    std::fs::create_dir_all(&corpus).expect("corpus dir");
    std::fs::create_dir_all(&artifacts).expect("artifact dir");
    // seed corpus: choice vectors from the same proptest strategy as the random stage (fixed seed)
    {
        let mut config = Config::default();
        config.cases = 192;
        config.failure_persistence = None;
        config.rng_seed = RngSeed::Fixed(seed.wrapping_mul(0x9E37_79B9_7F4A_7C15) ^ super::hash_of(id) ^ 0x6775_6964_6564);
        let mut runner = TestRunner::new(config);
        let max_words = prop.max_words();
        let strat = (0usize..=2).prop_flat_map(move |k| {
            let hi = match k {
                0 => (max_words / 8).max(1),
                1 => (max_words / 2).max(1),
                _ => max_words.max(1),
            };
            proptest::collection::vec(proptest::num::u32::ANY, 1..=hi)
        });
        let n = std::cell::Cell::new(0u32);
        let _ = runner.run(&strat, |words| {
            let k = n.get();
            n.set(k + 1);
            let _ = std::fs::write(corpus.join(format!("seed-{k:03}")), super::guided_bytes_from_words(&words));
            Ok(())
        });
    }
    let t0 = Instant::now();
    let known_arg: String = known_sigs.iter().map(|(s, i)| format!("{s}={i}")).collect::<Vec<_>>().join(",");
    let timeout = (2 * prop.watchdog_s()).max(30);
    let status = Command::new(&bin)
        .current_dir(&dir)
        .arg("corpus")
        .arg(format!("-runs={runs}"))
        // campaign budget: whichever of the two is reached first ends a worker; the evidence file
        // records the executions actually made
        .arg(format!("-max_total_time={}", env_u64("VERIF_GUIDED_SECONDS", 240)))
        .arg(format!("-seed={}", (seed % 0xffff_fffe) + 1))
        .arg(format!("-max_len={}", (2 * prop.max_words()).clamp(64, 16384)))
        .arg("-len_control=0")
        .arg(format!("-artifact_prefix={}/", artifacts.display()))
        .arg(format!("-jobs={workers}"))
        .arg(format!("-workers={workers}"))
        // the target's own watchdog thread enforces the per-case limit (see prop_words.rs)
        .arg("-timeout=100000")
        .arg("-report_slow_units=100000")
        .arg("-print_final_stats=1")
        .arg("-rss_limit_mb=4096")
        .env("QV_GUIDED_PROP", id)
        .env("QV_GUIDED_ACTIVE", active.join(","))
        .env("QV_GUIDED_KNOWN", &known_arg)
        .env("QV_GUIDED_ARTIFACTS", &artifacts)
        .env("QV_GUIDED_TIMEOUT_S", timeout.to_string())
        .env("QV_EXE", std::env::current_exe().unwrap())
        .env("VERIF_ROOT", root)
        .stdout(Stdio::null())
        .stderr(Stdio::null())
        .process_group(0)
        .spawn();
    // safety net: the driver and its workers form a process group that is killed as a whole if the
    // campaign does not end (inconclusive, never a verdict)
    let deadline = Instant::now() + Duration::from_secs(env_u64("VERIF_GUIDED_DEADLINE_S", 2700));
    let mut overran = false;
    let status = match status {
        Err(e) => Err(e),
        Ok(mut child) => loop {
            match child.try_wait() {
                Ok(Some(st)) => break Ok(st),
                Ok(None) => {
                    if Instant::now() > deadline {
                        overran = true;
                        unsafe {
                            libc::kill(-(child.id() as i32), libc::SIGKILL);
                        }
                        break child.wait();
                    }
                    std::thread::sleep(Duration::from_millis(100));
                }
                Err(e) => break Err(e),
            }
        },
    };
    let wall = t0.elapsed().as_secs_f64();
    let mut executed = 0u64;
    let mut cov = 0u64;
    if let Ok(rd) = std::fs::read_dir(&dir) {
        for e in rd.flatten() {
            let name = e.file_name().to_string_lossy().into_owned();
            if !(name.starts_with("fuzz-") && name.ends_with(".log")) {
                continue;
            }
            let text = String::from_utf8_lossy(&std::fs::read(e.path()).unwrap_or_default()).into_owned();
            for line in text.lines() {
                if let Some(rest) = line.strip_prefix("stat::number_of_executed_units:") {
                    executed += rest.trim().parse::<u64>().unwrap_or(0);
                }
                if let Some(i) = line.find(" cov: ") {
                    let n: u64 = line[i + 6..].split_whitespace().next().and_then(|x| x.parse().ok()).unwrap_or(0);
                    cov = cov.max(n);
                }
            }
        }
    }
    let corpus_files = std::fs::read_dir(&corpus).map(|r| r.count()).unwrap_or(0);
    let mut names: Vec<_> = std::fs::read_dir(&artifacts).map(|r| r.flatten().map(|e| e.path()).collect()).unwrap_or_default();
    names.sort();
    let mut discarded = 0u64;
    for a in &names {
        let bytes = std::fs::read(a).unwrap_or_default();
        let case = Case::raw(super::words_from_guided_bytes(&bytes));
        let fname = a.file_name().unwrap().to_string_lossy().into_owned();
        let wd = 4 * prop.watchdog_s() + 10;
        let one = spawn_one(id, &case, run_dir, active, wd);
        if let Some(m) = &one.infra {
            if g.inconclusive.is_none() {
                g.inconclusive = Some(format!("coverage-guided stage: saved input {fname}: {m}"));
            }
            continue;
        }
        match one.failure {
            None => {
                if fname.starts_with("timeout-") || fname.starts_with("slow-unit-") || fname.starts_with("oom-") {
                    // libFuzzer's per-input limits fire under machine load; the same case finishing in
                    // a child of its own says nothing against the property
                    discarded += 1;
                } else if g.inconclusive.is_none() {
                    g.inconclusive = Some(format!("coverage-guided stage: saved input {fname} does not fail when run alone: {}", short_case(&case)));
                }
            }
            Some(raw) => {
                // a death of the child is a verdict only where the property says so
                let fl = if raw.sig == "hang" || raw.sig.starts_with("crash:") {
                    let how = raw.sig.strip_prefix("crash:").unwrap_or("hang");
                    match prop.classify_death(how, &case) {
                        Some(f) => f,
                        None => {
                            if g.inconclusive.is_none() {
                                g.inconclusive = Some(format!("coverage-guided stage: {how} within {wd}s, inconclusive for this property: {}", short_case(&case)));
                            }
                            continue;
                        }
                    }
                } else {
                    raw.clone()
                };
                if let Some((_, kid)) = known_sigs.iter().find(|(p, _)| sig_matches(p, &fl.sig)) {
                    *g.known_hits.entry(kid.clone()).or_insert(0) += 1;
                    continue;
                }
                if g.violation.is_none() {
                    let sig = raw.sig.clone();
                    let mut test = |c: &Case| {
                        let o = spawn_one(id, c, run_dir, active, prop.watchdog_s() + 5);
                        matches!(o.failure, Some(f) if f.sig == sig)
                    };
                    let small = minimize(&case, 400, &mut test);
                    let again = spawn_one(id, &small, run_dir, active, wd);
                    g.violation = Some(ReplayFile {
                        property: id.to_string(),
                        rendering: if again.render.is_empty() { short_case(&small) } else { again.render },
                        case: small,
                        signature: fl.sig,
                        message: format!("{} (found by the coverage-guided stage)", fl.msg),
                        tier: "thorough".to_string(),
                    });
                }
            }
        }
    }
    if overran && g.inconclusive.is_none() && g.violation.is_none() {
        g.inconclusive = Some(format!("coverage-guided stage: the libFuzzer campaign did not end within its wall-clock limit and was stopped (see {})", dir.display()));
    }
    if !matches!(status, Ok(st) if st.success()) && names.is_empty() && g.inconclusive.is_none() {
        g.inconclusive = Some(format!("coverage-guided stage: libFuzzer driver ended with {status:?} and saved no input (see {})", dir.display()));
    }
    println!("[{id}] coverage-guided: workers={workers} runs/worker={runs} executed={executed} edge_coverage={cov} corpus={corpus_files} saved_inputs={} discarded_as_load_noise={discarded} wall={wall:.0}s", names.len());
    g.report = serde_json::json!({
        "ran": true, "engine": "libFuzzer (cargo-fuzz), target guided/fuzz_targets/prop_words.rs: input bytes -> choice words -> the property's own generator and oracle",
        "executions": executed, "edge_coverage": cov, "corpus_files": corpus_files, "saved_inputs": names.len(), "discarded_as_load_noise": discarded,
        "workers": workers, "runs_per_worker": runs, "max_total_time_s": env_u64("VERIF_GUIDED_SECONDS", 240), "wall_s": wall, "seed_corpus": "192 choice vectors from the random stage's strategy",
    });
    g
}

fn short_case(case: &Case) -> String {
    match case {
        Case::Text(t) => {
            if t.chars().count() > 400 {
                format!("{:?}… ({} chars)", t.chars().take(400).collect::<String>(), t.chars().count())
            } else {
                format!("{t:?}")
            }
        }
        Case::Words { words, direct } => format!("words(direct={direct}){:?}", &words[..words.len().min(64)]),
    }
}

fn merge(m: &mut Merged, sr: StreamResult, violation: &mut Option<ReplayFile>, inconclusive: &mut Option<String>) {
    m.res.evaluations += sr.evaluations;
    m.res.enumerated += sr.enumerated;
    m.res.nontrivial += sr.nontrivial;
    for k in sr.nontrivial_keys {
        m.keys.insert(k);
    }
    for (k, v) in sr.classes {
        *m.res.classes.entry(k).or_insert(0) += v;
    }
    for (k, v) in sr.skips {
        *m.res.skips.entry(k).or_insert(0) += v;
    }
    for (k, v) in sr.known_hits {
        *m.res.known_hits.entry(k).or_insert(0) += v;
    }
    for s in sr.samples {
        if m.res.samples.len() < 12 {
            m.res.samples.push(s);
        }
    }
    if let Some(f) = sr.failure {
        if violation.is_none() {
            *violation = Some(f);
        }
    }
    if let Some(h) = sr.harness_error {
        *inconclusive = Some(format!("harness error: {h}"));
    }
}

pub fn load_replay(path: &Path) -> Option<ReplayFile> {
    let b = std::fs::read(path).ok()?;
    serde_json::from_slice(&b).ok()
}

/// Evidence goes to `<verif>/evidence` unless `VERIF_EVIDENCE_DIR` redirects it: the self-test
/// scripts run checks against deliberately broken copies of the library and must not overwrite
/// the evidence of the unchanged tree.
fn evidence_dir(root: &Path) -> PathBuf {
    match std::env::var("VERIF_EVIDENCE_DIR") {
        Ok(d) if !d.is_empty() => PathBuf::from(d),
        _ => root.join("evidence"),
    }
}

fn write_evidence_violation(root: &Path, prop: &dyn Property, args: &CheckArgs, t0: Instant, replay: &Path, fl: &Failure) {
    let ev = serde_json::json!({
        "property_id": prop.id(),
        "tier": args.tier.name(),
        "seed": args.seed,
        "level": "exploration",
        "coverage": {
            "evaluations": 1,
            "distinct_nontrivial": 0,
            "rule": prop.rule(),
            "samples": [replay.display().to_string()],
            "violation": {"signature": fl.sig, "message": fl.msg},
        },
        "wall_s": t0.elapsed().as_secs_f64(),
        "violations": 1,
    });
    let evdir = evidence_dir(root);
    std::fs::create_dir_all(&evdir).ok();
    let _ = std::fs::write(evdir.join(format!("{}.json", prop.id())), serde_json::to_string_pretty(&ev).unwrap());
}

/// `./check <ID> --replay <file>`
pub fn replay(prop: &dyn Property, path: &Path) -> i32 {
    let root = verif_root();
    let Some(rf) = load_replay(path) else {
        eprintln!("cannot read replay file {}", path.display());
        return EXIT_INCONCLUSIVE;
    };
    ONE_TIER_THOROUGH.store(rf.tier == "thorough", Ordering::SeqCst);
    let run_dir = root.join("harness/target/run").join(format!("{}-replay", prop.id()));
    let one = spawn_one(prop.id(), &rf.case, &run_dir, &[], prop.watchdog_s() + 5);
    if let Some(m) = one.infra {
        eprintln!("infrastructure problem: {m}");
        return EXIT_INCONCLUSIVE;
    }
    match one.failure {
        Some(f) => {
            println!("[{}] {}: {}", prop.id(), f.sig, f.msg);
            if !one.render.is_empty() {
                println!("[{}] case: {}", prop.id(), one.render);
            }
            println!("VIOLATION property={} replay={}", prop.id(), path.display());
            EXIT_VIOLATION
        }
        None => {
            println!("[{}] replay passes: {}", prop.id(), one.render);
            EXIT_OK
        }
    }
}
