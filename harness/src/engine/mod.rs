//! Engine: case representation, property trait, panic capture.

pub mod findings;
pub mod runner;
pub mod src;

use serde::{Deserialize, Serialize};
use std::cell::RefCell;
use std::collections::hash_map::DefaultHasher;
use std::hash::{Hash, Hasher};

pub use src::Src;

#[derive(Clone, Copy, PartialEq, Eq, Debug)]
pub enum Tier {
    Quick,
    Thorough,
}

impl Tier {
    pub fn name(self) -> &'static str {
        match self {
            Tier::Quick => "quick",
            Tier::Thorough => "thorough",
        }
    }
    pub fn pick<T>(self, quick: T, thorough: T) -> T {
        match self {
            Tier::Quick => quick,
            Tier::Thorough => thorough,
        }
    }
}

/// A case is data: a choice vector, or a literal text (for the text-level properties).
#[derive(Serialize, Deserialize, Clone, Debug, PartialEq)]
pub enum Case {
    Words { direct: bool, words: Vec<u32> },
    Text(String),
}

impl Case {
    pub fn raw(words: Vec<u32>) -> Case {
        Case::Words { direct: false, words }
    }
    pub fn direct(words: Vec<u32>) -> Case {
        Case::Words { direct: true, words }
    }
}

#[derive(Serialize, Deserialize, Clone, Debug)]
pub struct ReplayFile {
    pub property: String,
    pub case: Case,
    pub signature: String,
    pub message: String,
    pub rendering: String,
    /// tier whose generator decodes a `Words` case (sizes differ between tiers); empty = quick
    #[serde(default)]
    pub tier: String,
}

#[derive(Clone, Debug, Serialize, Deserialize)]
pub struct Failure {
    /// Stable root-cause key, matched against KNOWN_FINDINGS.txt.
    pub sig: String,
    pub msg: String,
}

pub type Check = Result<(), Failure>;

#[macro_export]
macro_rules! fail {
    ($sig:expr, $($arg:tt)*) => {
        return Err($crate::engine::Failure { sig: ($sig).to_string(), msg: format!($($arg)*) })
    };
}

#[macro_export]
macro_rules! ensure {
    ($cond:expr, $sig:expr, $($arg:tt)*) => {
        if !($cond) {
            $crate::fail!($sig, $($arg)*)
        }
    };
}

/// What a property reports about one case besides the verdict.
#[derive(Default, Debug)]
pub struct Outcome {
    pub nontrivial: bool,
    /// Canonical hash of the case for distinctness.
    pub key: u64,
    pub classes: Vec<&'static str>,
    /// Filled only when `Ctx::render` is set.
    pub render: Option<String>,
    /// `Some(reason)`: the oracle declined to decide this case (ill-conditioned, excluded, …).
    pub skip: Option<&'static str>,
    /// Violations that matched an active known finding inside the property (the property kept going).
    pub known_hits: Vec<String>,
}

impl Outcome {
    pub fn class(&mut self, c: &'static str) {
        if !self.classes.contains(&c) {
            self.classes.push(c);
        }
    }
    pub fn set_key<T: Hash + ?Sized>(&mut self, t: &T) {
        self.key = hash_of(t);
    }
}

pub fn hash_of<T: Hash + ?Sized>(t: &T) -> u64 {
    let mut h = DefaultHasher::new();
    t.hash(&mut h);
    h.finish()
}

pub struct Ctx {
    pub tier: Tier,
    pub render: bool,
    pub seed: u64,
    /// ids of known findings that are active (their regression still fails)
    pub active: Vec<String>,
    /// signatures (exact, or prefix when ending in '*') of active known findings for this property
    pub known_sigs: Vec<(String, String)>, // (sig pattern, finding id)
}

impl Ctx {
    pub fn is_active(&self, finding_id: &str) -> bool {
        self.active.iter().any(|a| a == finding_id)
    }
    /// Which active known finding (if any) a failure signature belongs to.
    pub fn known(&self, sig: &str) -> Option<&str> {
        for (pat, id) in &self.known_sigs {
            let hit = if let Some(p) = pat.strip_suffix('*') { sig.starts_with(p) } else { sig == pat };
            if hit {
                return Some(id);
            }
        }
        None
    }
    /// For properties that run several independent sub-checks per case: record a failure that
    /// belongs to an active known finding and continue, or propagate it.
    pub fn tolerate(&self, out: &mut Outcome, r: Check) -> Check {
        match r {
            Ok(()) => Ok(()),
            Err(f) => {
                if let Some(id) = self.known(&f.sig) {
                    out.known_hits.push(id.to_string());
                    Ok(())
                } else {
                    Err(f)
                }
            }
        }
    }
}

pub trait Property: Sync {
    fn id(&self) -> &'static str;
    /// How cases are generated and what makes one non-trivial / distinct (goes into the evidence).
    fn rule(&self) -> &'static str;
    fn assumptions(&self) -> Vec<&'static str> {
        vec![]
    }
    /// Upper bound on the number of words a random case may consume.
    fn max_words(&self) -> usize;
    /// Random cases in total for the tier (split over the streams).
    fn cases(&self, tier: Tier) -> u64;
    /// Generate a case from the source and decide it.
    fn run(&self, src: &mut Src, ctx: &Ctx, out: &mut Outcome) -> Check;
    /// Decide a literal text case (only the text-level properties implement this).
    fn run_text(&self, _text: &str, _ctx: &Ctx, _out: &mut Outcome) -> Check {
        Err(Failure { sig: "harness:text-case-unsupported".into(), msg: "property has no text cases".into() })
    }
    /// Exhaustive part: call `f` for every case of shard `shard` out of `nshards`.
    fn enumerate(&self, _tier: Tier, _shard: u64, _nshards: u64, _f: &mut dyn FnMut(Case) -> bool) {}
    /// Description of the exhaustive part, if any.
    fn exhaustive_part(&self, _tier: Tier) -> Option<String> {
        None
    }
    /// (class, minimum fraction of evaluations) — generator health; missing a floor is exit 2.
    fn floors(&self) -> Vec<(&'static str, f64)> {
        vec![]
    }
    /// Whether the whole run is a complete enumeration of a finite space.
    fn exhaustive(&self, _tier: Tier) -> bool {
        false
    }
    /// Per-case watchdog in seconds.
    fn watchdog_s(&self) -> u64 {
        30
    }
    /// Whether the thorough tier adds the coverage-guided search over choice vectors (C01 and C02
    /// have byte-level libFuzzer targets of their own instead).
    fn guided(&self) -> bool {
        true
    }
    /// libFuzzer runs per worker in that stage.
    fn guided_runs(&self) -> u64 {
        150_000
    }
    /// Called by the parent when a child died / hung on `case`; return the failure to report, or
    /// None if a hang is merely inconclusive for this property.
    fn classify_death(&self, how: &str, _case: &Case) -> Option<Failure> {
        Some(Failure { sig: format!("crash:{how}"), msg: format!("child process died: {how}") })
    }
}

// ---------------------------------------------------------------------------------------------
// panic capture

#[derive(Clone, Debug)]
pub struct PanicInfo {
    pub file: String,
    pub line: u32,
    pub msg: String,
}

thread_local! {
    static LAST_PANIC: RefCell<Option<PanicInfo>> = const { RefCell::new(None) };
}

/// Choice words of a coverage-guided input: big-endian 16-bit units, unit `x` becoming the word
/// `x << 16 | x` (a trailing single byte `b` counts as the unit `b << 8`). The monotone maps of
/// `Src` look at the high bits of a word, so one unit decides one choice.
pub fn words_from_guided_bytes(data: &[u8]) -> Vec<u32> {
    data.chunks(2)
        .map(|c| {
            let x = ((c[0] as u32) << 8) | c.get(1).copied().unwrap_or(0) as u32;
            (x << 16) | x
        })
        .collect()
}

/// The closest coverage-guided input to a choice vector (keeps the high 16 bits of every word).
pub fn guided_bytes_from_words(words: &[u32]) -> Vec<u8> {
    words.iter().flat_map(|w| [(w >> 24) as u8, (w >> 16) as u8]).collect()
}

pub fn install_panic_hook() {
    std::panic::set_hook(Box::new(|info| {
        let (file, line) = info.location().map(|l| (l.file().to_string(), l.line())).unwrap_or_default();
        let msg = if let Some(s) = info.payload().downcast_ref::<&str>() {
            s.to_string()
        } else if let Some(s) = info.payload().downcast_ref::<String>() {
            s.clone()
        } else {
            "<non-string panic>".to_string()
        };
        LAST_PANIC.with(|p| *p.borrow_mut() = Some(PanicInfo { file, line, msg }));
    }));
}

/// Run `f`, turning a panic into `Err(PanicInfo)`.
pub fn guard<T>(f: impl FnOnce() -> T) -> Result<T, PanicInfo> {
    match std::panic::catch_unwind(std::panic::AssertUnwindSafe(f)) {
        Ok(v) => Ok(v),
        Err(_) => Err(LAST_PANIC.with(|p| p.borrow_mut().take()).unwrap_or(PanicInfo {
            file: String::new(),
            line: 0,
            msg: "<unknown panic>".into(),
        })),
    }
}

impl PanicInfo {
    pub fn in_harness(&self) -> bool {
        self.file.starts_with("src/") || self.file.contains("/verif/")
    }
    /// Signature: file (repo-relative) + message with digits collapsed, truncated.
    pub fn signature(&self) -> String {
        let file = self.file.rsplit("quil-rs/src/").next().unwrap_or(&self.file);
        let mut m = String::new();
        let mut last_digit = false;
        for c in self.msg.chars().take(80) {
            if c.is_ascii_digit() {
                if !last_digit {
                    m.push('N');
                }
                last_digit = true;
            } else {
                last_digit = false;
                m.push(if c.is_whitespace() { '_' } else { c });
            }
        }
        format!("panic:{file}:{m}")
    }
    pub fn to_failure(&self) -> Failure {
        Failure { sig: self.signature(), msg: format!("panic at {}:{}: {}", self.file, self.line, self.msg) }
    }
}

/// Guard a library call inside an oracle: a panic becomes a `Failure`.
pub fn lib<T>(f: impl FnOnce() -> T) -> Result<T, Failure> {
    guard(f).map_err(|p| p.to_failure())
}
