//! qv — property-based checks for quil-rs (library part: engine, generators, reference models,
//! properties). The `qv` binary drives it; the coverage-guided target under /verif/fuzz links it.
//! See /verif/DESIGN.md.

pub mod engine;
pub mod gen;
pub mod model;
pub mod props;
