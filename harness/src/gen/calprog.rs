//! Programs over small calibration alphabets (C17–C19, C35): gate calibrations with variable
//! qubits and %-parameters, measure calibrations, nested invocations (cycles possible), bodies
//! using every qubit-/frame-/expression-bearing instruction the DEFCAL block grammar allows.

use crate::engine::Src;
use crate::gen::expr as gx;
use crate::gen::rf;
use quil_rs::expression::{Expression, InfixOperator};
use quil_rs::instruction::{
    ArithmeticOperand, CalibrationDefinition, CalibrationIdentifier, Declaration, FrameIdentifier, Gate, Instruction,
    MeasureCalibrationDefinition, MeasureCalibrationIdentifier, Measurement, Move, Pragma, PragmaArgument, Qubit, Reset, ScalarType,
    Vector,
};

pub const GATE_NAMES: [&str; 4] = ["A", "B", "C", "RX"];

#[derive(Clone, Copy)]
pub struct CalOpts {
    /// allow `RX(%t) q: RX(%t+1) q`-style growth
    pub growth: bool,
    pub max_cals: usize,
    pub max_body: usize,
}

fn q_in_scope(src: &mut Src, scope: &[Qubit]) -> Qubit {
    // mostly a qubit from the definition's own list, sometimes another fixed one
    if !scope.is_empty() && src.chance(3, 4) {
        src.pick(scope).clone()
    } else {
        Qubit::Fixed(src.below(3) as u64)
    }
}

fn frame_in_scope(src: &mut Src, scope: &[Qubit]) -> FrameIdentifier {
    let two = src.chance(1, 5);
    let mut qubits = vec![q_in_scope(src, scope)];
    if two {
        qubits.push(q_in_scope(src, scope));
    }
    FrameIdentifier { name: src.pick(&["f", "g"]).to_string(), qubits }
}

fn param_expr(src: &mut Src, param_vars: &[String], growth: bool) -> Expression {
    let var = |src: &mut Src| -> Expression {
        if param_vars.is_empty() {
            // outside a definition: a constant, or (growth only) a memory reference, which no
            // amount of folding turns into a constant when a calibration squares it
            if growth && src.chance(1, 3) {
                Expression::Address(quil_rs::instruction::MemoryReference::new("ro".into(), 0))
            } else {
                gx::num(0.5, 0.0)
            }
        } else {
            Expression::Variable(src.pick(param_vars).clone())
        }
    };
    match src.weighted(&[3, 2, 1, if growth { 2 } else { 0 }, if growth { 1 } else { 0 }]) {
        0 => var(src),
        1 => gx::num(src.below(4) as f64 / 2.0, 0.0),
        2 => gx::infix(var(src), InfixOperator::Star, gx::num(2.0, 0.0)),
        3 => gx::infix(var(src), InfixOperator::Plus, gx::num(1.0, 0.0)),
        // doubles the size of the parameter at every level of re-expansion
        _ => {
            let v = var(src);
            gx::infix(v.clone(), InfixOperator::Star, v)
        }
    }
}

/// An instruction inside a calibration body. `scope`: the qubits of the enclosing identifier.
pub fn body_instruction(
    src: &mut Src,
    scope: &[Qubit],
    param_vars: &[String],
    target_name: Option<&str>,
    opts: &CalOpts,
    known: &[CalibrationIdentifier],
) -> Instruction {
    let e = |src: &mut Src| param_expr(src, param_vars, opts.growth);
    match src.weighted(&[8, 2, 1, 2, 2, 1, 1, 1, 2, 1, 1, 1, 1]) {
        0 if !known.is_empty() && src.chance(3, 4) => {
            // invoke one of the defined calibrations
            let id = src.pick(known).clone();
            Instruction::Gate(Gate {
                name: id.name.clone(),
                parameters: id.parameters.iter().map(|p| if matches!(p, Expression::Variable(_)) { e(src) } else { p.clone() }).collect(),
                qubits: id.qubits.iter().map(|q| if matches!(q, Qubit::Fixed(_)) && src.chance(4, 5) { q.clone() } else { q_in_scope(src, scope) }).collect(),
                modifiers: vec![],
            })
        }
        0 => {
            let name = *src.pick(&GATE_NAMES);
            let nq = if src.chance(1, 6) { 2 } else { 1 };
            let np = if name == "RX" || src.chance(1, 8) { 1 } else { 0 };
            Instruction::Gate(Gate {
                name: name.to_string(),
                parameters: (0..np).map(|_| e(src)).collect(),
                qubits: (0..nq).map(|_| q_in_scope(src, scope)).collect(),
                modifiers: vec![],
            })
        }
        1 => Instruction::Measurement(Measurement {
            name: None,
            qubit: q_in_scope(src, scope),
            target: if src.chance(1, 2) { Some(rf::mref("ro", src.below(2) as u64)) } else { None },
        }),
        2 => Instruction::Reset(Reset { qubit: if src.chance(4, 5) { Some(q_in_scope(src, scope)) } else { None } }),
        3 => {
            let f = frame_in_scope(src, scope);
            rf::pulse(src.chance(1, 2), &f, rf::waveform("flat", &[("duration", gx::num(1.0, 0.0)), ("iq", e(src))]))
        }
        4 => {
            let f = frame_in_scope(src, scope);
            let m = match target_name {
                Some(t) if src.chance(2, 3) => rf::mref(t, 0),
                _ => {
                    let n: &str = *src.pick(&["ro", "other"]);
                    rf::mref(n, src.below(2) as u64)
                }
            };
            if src.chance(2, 3) {
                rf::capture(src.chance(1, 2), &f, rf::waveform("flat", &[("duration", e(src)), ("iq", gx::num(1.0, 0.0))]), m)
            } else {
                rf::raw_capture(src.chance(1, 2), &f, e(src), m)
            }
        }
        5 => Instruction::Delay(quil_rs::instruction::Delay {
            duration: e(src),
            frame_names: if src.chance(1, 3) { vec!["f".to_string()] } else { vec![] },
            qubits: vec![q_in_scope(src, scope)],
        }),
        6 => Instruction::Fence(quil_rs::instruction::Fence { qubits: if src.chance(1, 4) { vec![] } else { vec![q_in_scope(src, scope)] } }),
        7 => {
            let f = frame_in_scope(src, scope);
            match src.below(5) {
                0 => rf::set_frequency(&f, e(src)),
                1 => rf::set_phase(&f, e(src)),
                2 => rf::set_scale(&f, e(src)),
                3 => rf::shift_frequency(&f, e(src)),
                _ => rf::shift_phase(&f, e(src)),
            }
        }
        8 => {
            let a = frame_in_scope(src, scope);
            let b = frame_in_scope(src, scope);
            rf::swap_phases(&a, &b)
        }
        9 => Instruction::Move(Move { destination: rf::mref("ro", 0), source: ArithmeticOperand::LiteralInteger(src.below(3) as i64) }),
        10 => {
            let data = match target_name {
                Some(t) if src.chance(2, 3) => t.to_string(),
                _ => "other".to_string(),
            };
            Instruction::Pragma(Pragma { name: "LOAD-MEMORY".into(), arguments: vec![PragmaArgument::Identifier("q0".into())], data: Some(data) })
        }
        11 => Instruction::Declaration(Declaration {
            name: src.pick(&["tmp", "tmp2", "ro"]).to_string(),
            size: Vector { data_type: ScalarType::Bit, length: 1 + src.below(2) as u64 },
            sharing: None,
        }),
        _ => Instruction::Pragma(Pragma { name: "NOTE".into(), arguments: vec![], data: None }),
    }
}

pub fn gate_identifier(src: &mut Src) -> CalibrationIdentifier {
    let name = *src.pick(&GATE_NAMES);
    let nq = if src.chance(1, 6) { 2 } else { 1 };
    let qubits: Vec<Qubit> = (0..nq)
        .map(|k| match src.below(4) {
            0 | 1 => Qubit::Variable(if k == 0 { "q".into() } else { "r".into() }),
            n => Qubit::Fixed(n as u64 - 2),
        })
        .collect();
    // usually at most one parameter; sometimes two, mixing literal and variable positions (the
    // variables are distinct: t, u)
    let np = if name == "RX" || src.chance(1, 8) { 1 + usize::from(src.chance(1, 4)) } else { 0 };
    let params: Vec<Expression> = (0..np)
        .map(|k| if src.chance(3, 4) { Expression::Variable(["t", "u"][k].into()) } else { gx::num(src.below(2) as f64 / 2.0, 0.0) })
        .collect();
    CalibrationIdentifier::new(name.to_string(), vec![], params, qubits).unwrap()
}

pub fn gate_calibration(src: &mut Src, opts: &CalOpts, identifier: CalibrationIdentifier, known: &[CalibrationIdentifier]) -> CalibrationDefinition {
    let param_vars: Vec<String> = identifier.parameters.iter().filter_map(|p| if let Expression::Variable(v) = p { Some(v.clone()) } else { None }).collect();
    let len = 1 + src.below(opts.max_body);
    let instructions = (0..len).map(|_| body_instruction(src, &identifier.qubits, &param_vars, None, opts, known)).collect();
    CalibrationDefinition { identifier, instructions }
}

pub fn measure_calibration(src: &mut Src, opts: &CalOpts, known: &[CalibrationIdentifier]) -> MeasureCalibrationDefinition {
    let qubit = match src.below(3) {
        0 => Qubit::Fixed(src.below(2) as u64),
        _ => Qubit::Variable("q".into()),
    };
    let target = if src.chance(2, 3) { Some("addr".to_string()) } else { None };
    let len = 1 + src.below(opts.max_body);
    let scope = vec![qubit.clone()];
    let instructions = (0..len).map(|_| body_instruction(src, &scope, &[], target.as_deref(), opts, known)).collect();
    MeasureCalibrationDefinition { identifier: MeasureCalibrationIdentifier::new(None, qubit, target), instructions }
}

/// A top-level body instruction: mostly gates / measurements that may match, sometimes others.
pub fn top_instruction(src: &mut Src, known: &[CalibrationIdentifier]) -> Instruction {
    match src.weighted(&[8, 3, 1, 1, 1]) {
        0 if !known.is_empty() && src.chance(3, 4) => {
            let id = src.pick(known).clone();
            Instruction::Gate(Gate {
                name: id.name.clone(),
                parameters: id
                    .parameters
                    .iter()
                    .map(|p| if matches!(p, Expression::Variable(_)) || src.chance(1, 6) { gx::num(src.below(4) as f64 / 2.0, 0.0) } else { p.clone() })
                    .collect(),
                qubits: id.qubits.iter().map(|q| if matches!(q, Qubit::Fixed(_)) && src.chance(5, 6) { q.clone() } else { Qubit::Fixed(src.below(3) as u64) }).collect(),
                modifiers: vec![],
            })
        }
        0 => {
            let name = *src.pick(&GATE_NAMES);
            let nq = if src.chance(1, 6) { 2 } else { 1 };
            let np = if name == "RX" || src.chance(1, 8) { 1 + usize::from(src.chance(1, 4)) } else { 0 };
            Instruction::Gate(Gate {
                name: name.to_string(),
                parameters: (0..np).map(|_| gx::num(src.below(4) as f64 / 2.0, 0.0)).collect(),
                qubits: (0..nq).map(|_| Qubit::Fixed(src.below(3) as u64)).collect(),
                modifiers: vec![],
            })
        }
        1 => Instruction::Measurement(Measurement {
            name: None,
            qubit: Qubit::Fixed(src.below(2) as u64),
            target: if src.chance(2, 3) { Some(rf::mref("ro", src.below(2) as u64)) } else { None },
        }),
        2 => rf::fence(&[0]),
        3 => Instruction::Move(Move { destination: rf::mref("ro", 1), source: ArithmeticOperand::LiteralInteger(1) }),
        _ => rf::set_phase(&rf::frame(&[0], "f"), gx::num(0.25, 0.0)),
    }
}

pub struct CalProgram {
    pub definitions: Vec<Instruction>,
    pub body: Vec<Instruction>,
}

pub fn generate(src: &mut Src, opts: &CalOpts, max_top: usize) -> CalProgram {
    let mut definitions = vec![Instruction::Declaration(Declaration {
        name: "ro".into(),
        size: Vector { data_type: ScalarType::Bit, length: 2 },
        sharing: None,
    })];
    let n = src.below(opts.max_cals + 1);
    // identifiers first, so that bodies can invoke calibrations defined later (or themselves)
    let kinds: Vec<bool> = (0..n).map(|_| src.chance(1, 4)).collect();
    let known: Vec<CalibrationIdentifier> = kinds.iter().filter(|m| !**m).map(|_| gate_identifier(src)).collect();
    let mut next = 0;
    for is_measure in kinds {
        if is_measure {
            definitions.push(Instruction::MeasureCalibrationDefinition(measure_calibration(src, opts, &known)));
        } else {
            definitions.push(Instruction::CalibrationDefinition(gate_calibration(src, opts, known[next].clone(), &known)));
            next += 1;
        }
    }
    let len = 1 + src.below(max_top);
    let body = (0..len).map(|_| top_instruction(src, &known)).collect();
    CalProgram { definitions, body }
}
