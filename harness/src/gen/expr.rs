//! Expression trees, built from the public `Expression` enum.

use crate::engine::Src;
use num_complex::Complex64;
use quil_rs::expression::{
    Expression, ExpressionFunction, FunctionCallExpression, InfixExpression, InfixOperator, PrefixExpression, PrefixOperator,
};
use quil_rs::instruction::MemoryReference;

pub const FUNCTIONS: [ExpressionFunction; 5] = [
    ExpressionFunction::Sine,
    ExpressionFunction::Cosine,
    ExpressionFunction::Exponent,
    ExpressionFunction::SquareRoot,
    ExpressionFunction::Cis,
];
pub const INFIX: [InfixOperator; 5] =
    [InfixOperator::Plus, InfixOperator::Minus, InfixOperator::Star, InfixOperator::Slash, InfixOperator::Caret];

#[derive(Clone, Copy, PartialEq, Eq)]
pub enum Literals {
    /// 0, small dyadic rationals, random reals/complex with magnitude in [0.25, 4] (C12).
    Moderate,
    /// the full finite zoo: integers up to 2^53±1, 1–17 significant digits, 1e-20…1e20,
    /// negative zero, pure imaginary, complex (C03).
    Wide,
}

#[derive(Clone, Copy)]
pub struct ExprCfg<'a> {
    pub max_depth: u32,
    pub vars: &'a [String],
    /// (region, number of indices generated)
    pub regions: &'a [(String, u64)],
    pub literals: Literals,
    /// probability (out of 100) of reusing an earlier subtree
    pub share_pct: u32,
    pub prefix_plus: bool,
    pub allow_pi: bool,
    pub allow_variables: bool,
    pub complex_numbers: bool,
}

pub fn infix(l: Expression, op: InfixOperator, r: Expression) -> Expression {
    Expression::Infix(InfixExpression::new(l.into(), op, r.into()))
}
pub fn prefix(op: PrefixOperator, e: Expression) -> Expression {
    Expression::Prefix(PrefixExpression::new(op, e.into()))
}
pub fn call(f: ExpressionFunction, e: Expression) -> Expression {
    Expression::FunctionCall(FunctionCallExpression::new(f, e.into()))
}
pub fn num(re: f64, im: f64) -> Expression {
    Expression::Number(Complex64::new(re, im))
}

fn dyadic(src: &mut Src) -> f64 {
    // k / 2^j, k in -16..=16, j in 0..=3
    let k = src.range(0, 32) - 16;
    let j = src.below(4) as i32;
    k as f64 / f64::powi(2.0, j)
}

fn moderate_real(src: &mut Src) -> f64 {
    let m = src.real(0.25, 4.0);
    if src.chance(1, 2) {
        -m
    } else {
        m
    }
}

/// A finite f64 from the "wide" zoo; word 0 → 0.0.
pub fn wide_real(src: &mut Src) -> f64 {
    match src.weighted(&[2, 3, 2, 3, 3, 1, 2]) {
        0 => 0.0,
        1 => src.range(-20, 20) as f64,
        2 => {
            let base: [f64; 6] = [2147483647.0, 2147483648.0, 9007199254740991.0, 9007199254740992.0, 9007199254740993.0, 4294967296.0];
            let b = *src.pick(&base);
            if src.chance(1, 2) {
                -b
            } else {
                b
            }
        }
        3 => {
            // d significant decimal digits times 10^e
            let digits = 1 + src.below(17);
            let mut m: f64 = 0.0;
            let mut s = String::new();
            for _ in 0..digits {
                s.push((b'0' + src.below(10) as u8) as char);
            }
            let e = src.range(-20, 20);
            let txt = format!("{}e{}", s, e - digits as i64 + 1);
            m += txt.parse::<f64>().unwrap_or(0.0);
            if src.chance(1, 2) {
                -m
            } else {
                m
            }
        }
        4 => moderate_real(src),
        5 => -0.0,
        _ => dyadic(src),
    }
}

pub fn number(src: &mut Src, cfg: &ExprCfg) -> Complex64 {
    match cfg.literals {
        Literals::Moderate => match src.weighted(&[1, 3, 3, if cfg.complex_numbers { 2 } else { 0 }]) {
            0 => Complex64::new(0.0, 0.0),
            1 => Complex64::new(dyadic(src), 0.0),
            2 => Complex64::new(moderate_real(src), 0.0),
            _ => Complex64::new(moderate_real(src), moderate_real(src)),
        },
        Literals::Wide => {
            let shape = if cfg.complex_numbers { src.weighted(&[5, 2, 3]) } else { 0 };
            match shape {
                0 => Complex64::new(wide_real(src), 0.0),
                1 => Complex64::new(0.0, wide_real(src)),
                _ => Complex64::new(wide_real(src), wide_real(src)),
            }
        }
    }
}

pub fn leaf(src: &mut Src, cfg: &ExprCfg) -> Expression {
    let w_var = if cfg.allow_variables && !cfg.vars.is_empty() { 3 } else { 0 };
    let w_addr = if cfg.regions.is_empty() { 0 } else { 3 };
    let w_pi = if cfg.allow_pi { 1 } else { 0 };
    match src.weighted(&[4, w_var, w_addr, w_pi]) {
        0 => Expression::Number(number(src, cfg)),
        1 => Expression::Variable(src.pick(cfg.vars).clone()),
        2 => {
            let (name, n) = src.pick(cfg.regions).clone();
            let index = src.below(n.max(1) as usize) as u64;
            Expression::Address(MemoryReference { name, index })
        }
        _ => Expression::PiConstant(),
    }
}

pub fn expr(src: &mut Src, cfg: &ExprCfg) -> Expression {
    let mut pool: Vec<Expression> = vec![];
    let depth = 1 + src.below(cfg.max_depth as usize) as u32;
    expr_at(src, cfg, depth, &mut pool)
}

fn expr_at(src: &mut Src, cfg: &ExprCfg, depth: u32, pool: &mut Vec<Expression>) -> Expression {
    if !pool.is_empty() && cfg.share_pct > 0 && src.chance(cfg.share_pct, 100) {
        return src.pick(pool).clone();
    }
    let e = if depth == 0 {
        leaf(src, cfg)
    } else {
        // leaf, infix, prefix, function
        match src.weighted(&[2, 6, 2, 2]) {
            0 => leaf(src, cfg),
            1 => {
                let op = *src.pick(&INFIX);
                let l = expr_at(src, cfg, depth - 1, pool);
                let r = expr_at(src, cfg, depth - 1, pool);
                infix(l, op, r)
            }
            2 => {
                let op = if cfg.prefix_plus && src.chance(1, 4) { PrefixOperator::Plus } else { PrefixOperator::Minus };
                let e = expr_at(src, cfg, depth - 1, pool);
                prefix(op, e)
            }
            _ => {
                let f = *src.pick(&FUNCTIONS);
                let e = expr_at(src, cfg, depth - 1, pool);
                call(f, e)
            }
        }
    };
    if pool.len() < 8 {
        pool.push(e.clone());
    }
    e
}

// ---------------------------------------------------------------------------------------------
// structural helpers (harness-side traversals of the public enum)

pub fn depth(e: &Expression) -> u32 {
    match e {
        Expression::Infix(i) => 1 + depth(&i.left).max(depth(&i.right)),
        Expression::Prefix(p) => 1 + depth(&p.expression),
        Expression::FunctionCall(f) => 1 + depth(&f.expression),
        _ => 0,
    }
}

pub fn size(e: &Expression) -> usize {
    match e {
        Expression::Infix(i) => 1 + size(&i.left) + size(&i.right),
        Expression::Prefix(p) => 1 + size(&p.expression),
        Expression::FunctionCall(f) => 1 + size(&f.expression),
        _ => 1,
    }
}

pub fn any_node(e: &Expression, pred: &dyn Fn(&Expression) -> bool) -> bool {
    if pred(e) {
        return true;
    }
    match e {
        Expression::Infix(i) => any_node(&i.left, pred) || any_node(&i.right, pred),
        Expression::Prefix(p) => any_node(&p.expression, pred),
        Expression::FunctionCall(f) => any_node(&f.expression, pred),
        _ => false,
    }
}

pub fn variables(e: &Expression, out: &mut Vec<String>) {
    match e {
        Expression::Variable(v) => out.push(v.clone()),
        Expression::Infix(i) => {
            variables(&i.left, out);
            variables(&i.right, out);
        }
        Expression::Prefix(p) => variables(&p.expression, out),
        Expression::FunctionCall(f) => variables(&f.expression, out),
        _ => {}
    }
}

/// Addresses in left-to-right order (model for `memory_references`, as a multiset).
pub fn addresses(e: &Expression, out: &mut Vec<(String, u64)>) {
    match e {
        Expression::Address(m) => out.push((m.name.clone(), m.index)),
        Expression::Infix(i) => {
            addresses(&i.left, out);
            addresses(&i.right, out);
        }
        Expression::Prefix(p) => addresses(&p.expression, out),
        Expression::FunctionCall(f) => addresses(&f.expression, out),
        _ => {}
    }
}

/// Structural hash (the library's `Hash` for `Expression` hashes interned child pointers, which
/// is neither stable across processes nor a content hash).
pub fn structural_hash(e: &Expression) -> u64 {
    use std::hash::{Hash, Hasher};
    fn go<H: Hasher>(e: &Expression, h: &mut H) {
        match e {
            Expression::Address(m) => {
                0u8.hash(h);
                m.name.hash(h);
                m.index.hash(h);
            }
            Expression::FunctionCall(f) => {
                1u8.hash(h);
                (f.function as u8).hash(h);
                go(&f.expression, h);
            }
            Expression::Infix(i) => {
                2u8.hash(h);
                (i.operator as u8).hash(h);
                go(&i.left, h);
                go(&i.right, h);
            }
            Expression::Number(n) => {
                3u8.hash(h);
                n.re.to_bits().hash(h);
                n.im.to_bits().hash(h);
            }
            Expression::PiConstant() => 4u8.hash(h),
            Expression::Prefix(p) => {
                5u8.hash(h);
                (p.operator as u8).hash(h);
                go(&p.expression, h);
            }
            Expression::Variable(v) => {
                6u8.hash(h);
                v.hash(h);
            }
        }
    }
    let mut h = std::collections::hash_map::DefaultHasher::new();
    go(e, &mut h);
    h.finish()
}
