//! Programs with definitions of every kind (shared by C08–C11, C33): each generated item is an
//! instruction plus the kind it is stored under and, for keyed definitions, its key. Keys come from
//! pools of 2–4 so that redefinition of the same key happens often; every key has several distinct
//! values so that a redefinition changes the stored value.
//!
//! Instructions are written as Quil text and parsed once with `Instruction::from_str`; from then on
//! they are plain data. (A parser defect on one of these fixed templates would affect every
//! construction route alike and so cannot produce a false alarm in the order/merge oracles.)

use crate::engine::Src;
use quil_rs::instruction::Instruction;
use quil_rs::quil::Quil;
use std::str::FromStr;

#[derive(Clone, Copy, PartialEq, Eq, Debug, Hash, PartialOrd, Ord)]
pub enum Kind {
    Extern,
    Declare,
    Frame,
    Waveform,
    Cal,
    MeasureCal,
    Gate,
    Circuit,
    Body,
}

pub const DEF_KINDS: [Kind; 8] =
    [Kind::Extern, Kind::Declare, Kind::Frame, Kind::Waveform, Kind::Cal, Kind::MeasureCal, Kind::Gate, Kind::Circuit];

#[derive(Clone, Debug)]
pub struct Item {
    pub kind: Kind,
    /// Key within the kind (empty for body instructions).
    pub key: String,
    pub instr: Instruction,
}

pub fn parse1(text: &str) -> Instruction {
    Instruction::from_str(text).unwrap_or_else(|e| panic!("harness template does not parse: {text:?}: {e}"))
}

/// Classify an arbitrary instruction the way `Program::add_instruction` documents it.
pub fn classify(i: &Instruction) -> (Kind, String) {
    match i {
        Instruction::Pragma(p) if p.name == "EXTERN" => {
            let key = match p.arguments.first() {
                Some(quil_rs::instruction::PragmaArgument::Identifier(n)) => format!("name:{n}"),
                _ => "<none>".to_string(),
            };
            (Kind::Extern, key)
        }
        Instruction::Declaration(d) => (Kind::Declare, d.name.clone()),
        Instruction::FrameDefinition(f) => (Kind::Frame, format!("{:?}", f.identifier)),
        Instruction::WaveformDefinition(w) => (Kind::Waveform, w.name.clone()),
        Instruction::CalibrationDefinition(c) => (Kind::Cal, format!("{:?}", c.identifier)),
        Instruction::MeasureCalibrationDefinition(c) => (Kind::MeasureCal, format!("{:?}", c.identifier)),
        Instruction::GateDefinition(g) => (Kind::Gate, g.name.clone()),
        Instruction::CircuitDefinition(c) => (Kind::Circuit, c.name.clone()),
        _ => (Kind::Body, String::new()),
    }
}

fn item(text: String) -> Item {
    let instr = parse1(&text);
    let (kind, key) = classify(&instr);
    Item { kind, key, instr }
}

pub const FRAME_IDS: [&str; 4] = ["0 \"a\"", "0 \"b\"", "1 \"a\"", "0 1 \"c\""];

pub fn definition(src: &mut Src, kind: Kind) -> Item {
    let v = src.below(4);
    match kind {
        Kind::Extern => {
            let text = match src.below(5) {
                0 => format!("PRAGMA EXTERN fa \"(x{v} : INTEGER)\""),
                1 => format!("PRAGMA EXTERN fb \"REAL (y{v} : mut REAL[{}])\"", v + 1),
                2 => format!("PRAGMA EXTERN fa \"INTEGER (z{v} : BIT)\""),
                3 => format!("PRAGMA EXTERN \"unnamed{v}\""),
                _ => format!("PRAGMA EXTERN {v} \"x\""),
            };
            item(text)
        }
        Kind::Declare => {
            let name = *src.pick(&["ma", "mb", "mc"]);
            let ty = *src.pick(&["BIT", "REAL", "INTEGER", "OCTET"]);
            let sharing = match src.below(4) {
                0 => " SHARING mz".to_string(),
                1 => format!(" SHARING mz OFFSET {} BIT", v + 1),
                _ => String::new(),
            };
            item(format!("DECLARE {name} {ty}[{}]{sharing}", v + 1))
        }
        Kind::Frame => {
            let id = *src.pick(&FRAME_IDS);
            let mut attrs = String::new();
            if src.chance(2, 3) {
                attrs.push_str(&format!("\n    SAMPLE-RATE: {}.0", v + 1));
            }
            if src.chance(1, 2) {
                attrs.push_str(&format!("\n    HARDWARE-OBJECT: \"h{v}\""));
            }
            if src.chance(1, 3) {
                attrs.push_str("\n    INITIAL-FREQUENCY: 1e9");
            }
            if attrs.is_empty() {
                attrs.push_str(&format!("\n    DIRECTION: \"d{v}\""));
            }
            item(format!("DEFFRAME {id}:{attrs}"))
        }
        Kind::Waveform => {
            let name = *src.pick(&["wa", "wb", "wc"]);
            let params = if src.chance(1, 3) { "(%a)" } else { "" };
            let body = if params.is_empty() { format!("{v}.5, 1.0") } else { format!("%a, {v}.0") };
            item(format!("DEFWAVEFORM {name}{params}:\n    {body}"))
        }
        Kind::Cal => {
            // usually a small pool of signatures (so that redefinition happens); one time in four a
            // signature that shares a proper prefix of its qubit list, parameter list or modifier
            // list with one from the pool — distinct signatures that a careless comparison merges
            let (head, qubits) = if src.chance(3, 4) {
                let head = *src.pick(&["X", "RX(%t)", "RX(pi)", "DAGGER X", "CZ"]);
                (head, if head == "CZ" { *src.pick(&["0 1", "1 0", "a b"]) } else { *src.pick(&["0", "1", "q", "7"]) })
            } else {
                let head = *src.pick(&["X", "RX(%t)", "RX(%t, %u)", "RX(pi, 1)", "RX", "DAGGER X", "DAGGER DAGGER X", "CZ"]);
                (head, *src.pick(&["0", "0 1", "0 1 2", "q", "q 1", "1", "1 0"]))
            };
            let body = match src.below(3) {
                0 => format!("PRAGMA k{v}"),
                1 => format!("PULSE 0 \"a\" wa\n    PRAGMA k{v}"),
                _ => format!("DELAY 3 {v}.0"),
            };
            item(format!("DEFCAL {head} {qubits}:\n    {body}"))
        }
        Kind::MeasureCal => {
            let head = *src.pick(&["MEASURE 0 addr", "MEASURE 1 addr", "MEASURE q addr", "MEASURE 0", "MEASURE q", "MEASURE 4 dest", "MEASURE 0 dest", "MEASURE!mid 0 addr", "MEASURE!mid 0"]);
            let body = match src.below(2) {
                0 => format!("PRAGMA m{v}"),
                _ => format!("FENCE 6\n    PRAGMA m{v}"),
            };
            item(format!("DEFCAL {head}:\n    {body}"))
        }
        Kind::Gate => {
            let name = *src.pick(&["GA", "GB", "GC"]);
            let text = match src.below(5) {
                // a sequence over two formal qubits that uses only the first
                4 => format!("DEFGATE {name}(%t) p q AS SEQUENCE:\n    RX(%t) p\n    RZ({v}) p"),
                0 => format!("DEFGATE {name}:\n    1, 0\n    0, {v}"),
                1 => format!("DEFGATE {name} AS PERMUTATION:\n    {}", if v % 2 == 0 { "0, 1" } else { "1, 0" }),
                2 => format!("DEFGATE {name}(%t) p AS PAULI-SUM:\n    Z({v}*%t) p"),
                _ => format!("DEFGATE {name}(%t) p AS SEQUENCE:\n    RX(%t) p\n    RZ({v}) p"),
            };
            item(text)
        }
        Kind::Circuit => {
            let name = *src.pick(&["CA", "CB"]);
            let text = match src.below(3) {
                0 => format!("DEFCIRCUIT {name} q:\n    RX({v}) q"),
                1 => format!("DEFCIRCUIT {name}(%t) q r:\n    RX(%t) q\n    CNOT q r\n    RZ({v}) 8"),
                _ => format!("DEFCIRCUIT {name}:\n    X {v}"),
            };
            item(text)
        }
        Kind::Body => body(src),
    }
}

const BODY: [&str; 28] = [
    "X 0",
    "CNOT 0 1",
    "RX(pi/2) 1",
    "MEASURE 0 ro[0]",
    "MEASURE 2",
    "PRAGMA foo",
    "PRAGMA bar 1 x \"data\"",
    "ADD ma[0] 1",
    "MOVE mb[0] 2.5",
    "PULSE 0 \"a\" wa",
    "NONBLOCKING PULSE 0 1 \"c\" flat(duration: 1.0, iq: 1.0)",
    "CAPTURE 1 \"a\" wb ro[0]",
    "CALL fa ma[0]",
    "LABEL @l",
    "JUMP @l",
    "JUMP-WHEN @l mb[0]",
    "H 5",
    "DELAY 2 1.0",
    "FENCE",
    "FENCE 0 3",
    "RESET",
    "RESET 3",
    "NOP",
    "SET-PHASE 9 \"a\" 1.0",
    // invocations of the generated gate definitions (GA, GB, GC), with one and with two qubits: a
    // sequence definition of the matching arity expands them, anything else leaves them alone
    "GA(0.5) 4",
    "GB(1) 0",
    "GA(0.5) 0 11",
    "GC(0.25) 12 1",
];

pub fn body(src: &mut Src) -> Item {
    item(src.pick(&BODY).to_string())
}

/// A body instruction that is not control flow (LABEL / JUMP*).
pub fn straight_body(src: &mut Src) -> Item {
    loop {
        let it = body(src);
        if !matches!(it.instr, Instruction::Label(_) | Instruction::Jump(_) | Instruction::JumpWhen(_) | Instruction::JumpUnless(_) | Instruction::Halt()) {
            return it;
        }
        // control-flow entries are 3 of 28; a zero word never lands on one, so this terminates
        if src.exhausted() {
            return item("NOP".to_string());
        }
    }
}

pub struct SeqCfg {
    pub max_len: usize,
    /// percent of items that are body instructions
    pub body_pct: u32,
}

/// A sequence of items. The length is the larger of two uniform draws (long sequences are the
/// interesting ones; the zero vector still gives the empty sequence), kinds are weighted towards
/// the ones with the richest key structure (frames, externs, calibrations).
pub fn sequence(src: &mut Src, cfg: &SeqCfg) -> Vec<Item> {
    let n = src.below(cfg.max_len + 1).max(src.below(cfg.max_len + 1));
    const WEIGHTS: [u32; 8] = [3, 2, 4, 2, 3, 2, 2, 2];
    (0..n)
        .map(|_| {
            if src.chance(cfg.body_pct, 100) {
                body(src)
            } else {
                let k = DEF_KINDS[src.weighted(&WEIGHTS)];
                definition(src, k)
            }
        })
        .collect()
}

// ---------------------------------------------------------------------------------------------
// Reference model of what a program holds (from the statements of C08/C09/C11 and the rustdoc of
// `Program::add_instruction`): per definition kind an insertion-ordered map — the first insertion
// of a key fixes its position, a later one with the same key replaces the value in place — plus the
// body in the order added.

#[derive(Clone, Debug, Default, PartialEq)]
pub struct Model {
    /// (kind, key, instruction), in first-insertion order within each kind
    pub defs: Vec<(Kind, String, Instruction)>,
    pub body: Vec<Instruction>,
}

impl Model {
    pub fn add(&mut self, it: &Item) {
        self.add_instr(&it.instr);
    }
    pub fn add_instr(&mut self, i: &Instruction) {
        let (kind, key) = classify(i);
        if kind == Kind::Body {
            self.body.push(i.clone());
        } else if let Some(slot) = self.defs.iter_mut().find(|(k, key2, _)| *k == kind && *key2 == key) {
            slot.2 = i.clone();
        } else {
            self.defs.push((kind, key, i.clone()));
        }
    }
    pub fn from_items(items: &[Item]) -> Model {
        let mut m = Model::default();
        for it in items {
            m.add(it);
        }
        m
    }
    pub fn from_instructions(items: &[Instruction]) -> Model {
        let mut m = Model::default();
        for it in items {
            m.add_instr(it);
        }
        m
    }
    pub fn of_kind(&self, kind: Kind) -> Vec<Instruction> {
        self.defs.iter().filter(|(k, _, _)| *k == kind).map(|(_, _, i)| i.clone()).collect()
    }
    /// `self` followed by `other` (C11: body appended, common keys take `other`'s value in place,
    /// new keys are appended).
    pub fn concat(&self, other: &Model) -> Model {
        let mut m = self.clone();
        for (_, _, i) in &other.defs {
            m.add_instr(i);
        }
        m.body.extend(other.body.iter().cloned());
        m
    }
    pub fn redefinitions(items: &[Item]) -> usize {
        let mut seen: Vec<(Kind, &str)> = vec![];
        let mut n = 0;
        for it in items {
            if it.kind == Kind::Body {
                continue;
            }
            if seen.contains(&(it.kind, it.key.as_str())) {
                n += 1;
            } else {
                seen.push((it.kind, it.key.as_str()));
            }
        }
        n
    }
    pub fn distinct_keys(&self, kind: Kind) -> usize {
        self.defs.iter().filter(|(k, _, _)| *k == kind).count()
    }
}

/// Text form of an item sequence for hand-written regression cases: instructions separated by
/// lines holding only `;;`.
pub fn parse_items(text: &str) -> Result<Vec<Item>, String> {
    let mut items = vec![];
    for chunk in text.split("\n;;\n") {
        if chunk.trim().is_empty() {
            continue;
        }
        let instr = Instruction::from_str(chunk).map_err(|e| format!("regression text chunk {chunk:?} does not parse: {e}"))?;
        let (kind, key) = classify(&instr);
        items.push(Item { kind, key, instr });
    }
    Ok(items)
}

pub fn show(i: &Instruction) -> String {
    // the DEFCAL writer is not trusted to show modifiers (see C02/C04), so say so explicitly
    let extra = match i {
        Instruction::CalibrationDefinition(c) if !c.identifier.modifiers.is_empty() => format!(" [modifiers {:?}]", c.identifier.modifiers),
        _ => String::new(),
    };
    format!("{}{extra}", i.to_quil_or_debug().replace('\n', " ⏎ "))
}

pub fn render(items: &[Item]) -> String {
    items.iter().map(|i| show(&i.instr)).collect::<Vec<_>>().join(" ;; ")
}
