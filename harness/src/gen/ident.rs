//! Identifiers: `[A-Za-z_]([A-Za-z0-9_-]*[A-Za-z0-9_])?`, never a reserved token.

use crate::engine::Src;
use quil_rs::reserved::ReservedToken;
use std::str::FromStr;

const LEAD: &[u8] = b"abcdefghijklmnopqrstuvwxyzABCDEFGHIJKLMNOPQRSTUVWXYZ_";
const MID: &[u8] = b"abcdefghijklmnopqrstuvwxyzABCDEFGHIJKLMNOPQRSTUVWXYZ_0123456789--";
const END: &[u8] = b"abcdefghijklmnopqrstuvwxyzABCDEFGHIJKLMNOPQRSTUVWXYZ_0123456789";

/// Names that mean something else in expression position (any letter case).
pub fn is_expression_word(s: &str) -> bool {
    matches!(s.to_ascii_lowercase().as_str(), "pi" | "i" | "sin" | "cos" | "sqrt" | "exp" | "cis")
}

pub fn is_reserved(s: &str) -> bool {
    ReservedToken::from_str(s).is_ok()
}

/// A valid user identifier of length 1..=max_len. Word 0 gives "a".
pub fn ident(src: &mut Src, max_len: usize) -> String {
    let len = 1 + src.below(max_len.max(1));
    let mut s = String::with_capacity(len);
    s.push(LEAD[src.below(LEAD.len())] as char);
    for k in 1..len {
        let table = if k + 1 == len { END } else { MID };
        s.push(table[src.below(table.len())] as char);
    }
    if is_reserved(&s) {
        s.push('_');
    }
    s
}

/// As `ident`, and additionally never one of pi/i/sin/cos/sqrt/exp/cis in any case.
pub fn ident_for_expression(src: &mut Src, max_len: usize) -> String {
    let mut s = ident(src, max_len);
    if is_expression_word(&s) {
        s.push('_');
    }
    s
}
