//! Classical instructions over a small region alphabet, every operand form.

use crate::engine::Src;
use quil_rs::instruction::{
    Arithmetic, ArithmeticOperand, ArithmeticOperator, BinaryLogic, BinaryOperand, BinaryOperator, Comparison, ComparisonOperand,
    ComparisonOperator, Convert, Exchange, Instruction, Load, MemoryReference, Move, Store, UnaryLogic, UnaryOperator,
};

pub const ARITH: [ArithmeticOperator; 4] =
    [ArithmeticOperator::Add, ArithmeticOperator::Subtract, ArithmeticOperator::Multiply, ArithmeticOperator::Divide];
pub const BINARY: [BinaryOperator; 6] =
    [BinaryOperator::And, BinaryOperator::Ior, BinaryOperator::Xor, BinaryOperator::Shl, BinaryOperator::Shr, BinaryOperator::Ashr];
pub const COMPARE: [ComparisonOperator; 5] = [
    ComparisonOperator::Equal,
    ComparisonOperator::GreaterThanOrEqual,
    ComparisonOperator::GreaterThan,
    ComparisonOperator::LessThanOrEqual,
    ComparisonOperator::LessThan,
];

pub fn mref(src: &mut Src, regions: &[&str], max_index: u64) -> MemoryReference {
    MemoryReference { name: src.pick(regions).to_string(), index: src.below(max_index as usize + 1) as u64 }
}

pub fn arithmetic_operand(src: &mut Src, regions: &[&str]) -> ArithmeticOperand {
    match src.below(3) {
        0 => ArithmeticOperand::MemoryReference(mref(src, regions, 2)),
        1 => ArithmeticOperand::LiteralInteger(src.range(-5, 5)),
        _ => ArithmeticOperand::LiteralReal(src.range(-8, 8) as f64 / 4.0 + 0.125),
    }
}

/// One classical (memory-manipulating) instruction; `kind` in 0..NUM_KINDS selects the shape.
pub const NUM_KINDS: usize = 10;
pub fn classical(src: &mut Src, kind: usize, regions: &[&str]) -> Instruction {
    match kind {
        0 => Instruction::Move(Move { destination: mref(src, regions, 2), source: arithmetic_operand(src, regions) }),
        1 => Instruction::Arithmetic(Arithmetic {
            operator: *src.pick(&ARITH),
            destination: mref(src, regions, 2),
            source: arithmetic_operand(src, regions),
        }),
        2 => Instruction::BinaryLogic(BinaryLogic {
            operator: *src.pick(&BINARY),
            destination: mref(src, regions, 2),
            source: if src.chance(1, 2) { BinaryOperand::MemoryReference(mref(src, regions, 2)) } else { BinaryOperand::LiteralInteger(src.range(-5, 5)) },
        }),
        3 => Instruction::UnaryLogic(UnaryLogic {
            operator: if src.chance(1, 2) { UnaryOperator::Neg } else { UnaryOperator::Not },
            operand: mref(src, regions, 2),
        }),
        4 => Instruction::Exchange(Exchange { left: mref(src, regions, 2), right: mref(src, regions, 2) }),
        5 => Instruction::Convert(Convert { destination: mref(src, regions, 2), source: mref(src, regions, 2) }),
        6 => Instruction::Comparison(Comparison {
            operator: *src.pick(&COMPARE),
            destination: mref(src, regions, 2),
            lhs: mref(src, regions, 2),
            rhs: match src.below(3) {
                0 => ComparisonOperand::MemoryReference(mref(src, regions, 2)),
                1 => ComparisonOperand::LiteralInteger(src.range(-5, 5)),
                _ => ComparisonOperand::LiteralReal(src.range(-8, 8) as f64 / 4.0 + 0.125),
            },
        }),
        7 => Instruction::Load(Load { destination: mref(src, regions, 2), source: src.pick(regions).to_string(), offset: mref(src, regions, 2) }),
        8 => Instruction::Store(Store { destination: src.pick(regions).to_string(), offset: mref(src, regions, 2), source: arithmetic_operand(src, regions) }),
        _ => Instruction::Move(Move { destination: mref(src, regions, 0), source: ArithmeticOperand::LiteralInteger(src.range(0, 3)) }),
    }
}
