//! Small alphabets of frames and RF instructions (shared by C22, C24–C26, C35).

use num_complex::Complex64;
use quil_rs::expression::Expression;
use quil_rs::instruction::{
    Capture, Delay, Fence, FrameIdentifier, Instruction, MemoryReference, Pulse, Qubit, RawCapture, Reset, SetFrequency, SetPhase,
    SetScale, ShiftFrequency, ShiftPhase, SwapPhases, WaveformInvocation,
};

pub fn frame(qubits: &[u64], name: &str) -> FrameIdentifier {
    FrameIdentifier { name: name.to_string(), qubits: qubits.iter().map(|q| Qubit::Fixed(*q)).collect() }
}

pub fn real(x: f64) -> Expression {
    Expression::Number(Complex64::new(x, 0.0))
}

pub fn waveform(name: &str, params: &[(&str, Expression)]) -> WaveformInvocation {
    WaveformInvocation { name: name.to_string(), parameters: params.iter().map(|(k, v)| (k.to_string(), v.clone())).collect() }
}

pub fn flat(duration: f64) -> WaveformInvocation {
    waveform("flat", &[("duration", real(duration)), ("iq", real(1.0))])
}

pub fn mref(name: &str, index: u64) -> MemoryReference {
    MemoryReference { name: name.to_string(), index }
}

pub fn pulse(blocking: bool, f: &FrameIdentifier, w: WaveformInvocation) -> Instruction {
    Instruction::Pulse(Pulse { blocking, frame: f.clone(), waveform: w })
}
pub fn capture(blocking: bool, f: &FrameIdentifier, w: WaveformInvocation, m: MemoryReference) -> Instruction {
    Instruction::Capture(Capture { blocking, frame: f.clone(), memory_reference: m, waveform: w })
}
pub fn raw_capture(blocking: bool, f: &FrameIdentifier, duration: Expression, m: MemoryReference) -> Instruction {
    Instruction::RawCapture(RawCapture { blocking, frame: f.clone(), duration, memory_reference: m })
}
pub fn set_frequency(f: &FrameIdentifier, e: Expression) -> Instruction {
    Instruction::SetFrequency(SetFrequency { frame: f.clone(), frequency: e })
}
pub fn set_phase(f: &FrameIdentifier, e: Expression) -> Instruction {
    Instruction::SetPhase(SetPhase { frame: f.clone(), phase: e })
}
pub fn set_scale(f: &FrameIdentifier, e: Expression) -> Instruction {
    Instruction::SetScale(SetScale { frame: f.clone(), scale: e })
}
pub fn shift_frequency(f: &FrameIdentifier, e: Expression) -> Instruction {
    Instruction::ShiftFrequency(ShiftFrequency { frame: f.clone(), frequency: e })
}
pub fn shift_phase(f: &FrameIdentifier, e: Expression) -> Instruction {
    Instruction::ShiftPhase(ShiftPhase { frame: f.clone(), phase: e })
}
pub fn swap_phases(a: &FrameIdentifier, b: &FrameIdentifier) -> Instruction {
    Instruction::SwapPhases(SwapPhases { frame_1: a.clone(), frame_2: b.clone() })
}
pub fn fence(qubits: &[u64]) -> Instruction {
    Instruction::Fence(Fence { qubits: qubits.iter().map(|q| Qubit::Fixed(*q)).collect() })
}
pub fn delay(qubits: &[u64], names: &[&str], duration: Expression) -> Instruction {
    Instruction::Delay(Delay { duration, frame_names: names.iter().map(|s| s.to_string()).collect(), qubits: qubits.iter().map(|q| Qubit::Fixed(*q)).collect() })
}
pub fn reset(q: Option<u64>) -> Instruction {
    Instruction::Reset(Reset { qubit: q.map(Qubit::Fixed) })
}
