//! Program *texts* (C01, C02): spellings the library's own printer never produces, style
//! variations of printed programs, token-level mutations, and the repository's own `.quil` corpus.

use crate::engine::Src;
use crate::gen::instr::{self, Cfg};
use quil_rs::quil::Quil;
use quil_rs::Program;

/// Accepted spellings that differ from what the printer emits (literal forms, redundant
/// parentheses, bare memory names, implicit lengths, tabs, upper-case keywords in expressions, ...).
pub const SPELLINGS: [&str; 97] = [
    "MOVE ro 1.0",
    "MOVE ro[0] 0x10",
    "MOVE ro -0b101",
    "MOVE ro 1e3",
    "MOVE ro 1E-3",
    "MOVE ro .5",
    "MOVE ro 5.",
    "MOVE ro 1_000",
    "MOVE ro -9223372036854775808",
    "MOVE ro 9223372036854775807",
    "MOVE ro 1e300",
    "MOVE ro 4.9e-324",
    "MOVE ro 0.1",
    "MOVE ro 123456789.123456789",
    "ADD ro[1] 0o17",
    "SUB x -2.50",
    "MUL x y[3]",
    "DIV x 1e-7",
    "EQ b ro 1e3",
    "GT b x 0X1f",
    "LE b x -0.0",
    "AND ro 0xFF",
    "XOR ro ro[1]",
    "NEG x",
    "NOT ro",
    "EXCHANGE x y",
    "CONVERT x ro",
    "LOAD x y idx",
    "STORE y idx 2.0",
    "STORE y idx[1] x",
    "RX(-(-pi)) 0",
    "RX(2*(3+4)) 0",
    "RX(((1))) 0",
    "RX(1e300) 0",
    "RX(1.0e-320) 0",
    "RX(theta) 0",
    "RX(-theta[1]^2) 0",
    "RX(2^3^2) 0",
    "RX(1-(2-3)) 0",
    "RX(1/(2/3)) 0",
    "RX((1/2)/3) 0",
    "RX(-2^2) 0",
    "RX((-2)^2) 0",
    "RX(0-pi) 0",
    "RX(- pi) 0",
    "RX(1+2i) 0",
    "RX(1-2.5i) 0",
    "RX(2i) 0",
    "RX(i) 0",
    "RX(-i) 0",
    "RX(.5) 0",
    "RX(5.) 0",
    "RX(1_000) 0",
    "RX(PI) 0",
    "RX(SIN(pi/2)) 0",
    "RX(cis(theta[0])*exp(-i*pi)) 0",
    "RX(sqrt(2)/2, 0x10) 0 1",
    "RX(%x) 0",
    "RX(2*%x+%y) q",
    "RX(0.1+0.2) 0",
    "RX(1e21) 0",
    "RX(123456789012345678) 0",
    "RX(0.30000000000000004) 0",
    "CONTROLLED DAGGER RX(0.5) 0 1",
    "FORKED RX(0.5, 1.5) 0 1",
    "XY(pi/2) 0 1",
    "my-gate 0",
    "H q",
    "X %q",
    "DECLARE ro BIT",
    "DECLARE x REAL[1]",
    "DECLARE y OCTET[4] SHARING x OFFSET 1 REAL 2 BIT",
    "DECLARE idx INTEGER[0x2]",
    "MEASURE 0",
    "MEASURE 0 ro",
    "MEASURE q ro[1]",
    "MEASURE!midcircuit 0 ro",
    "RESET",
    "RESET 3",
    "PRAGMA A b 1 \"c\"",
    "PRAGMA INITIAL_REWIRING \"NAIVE\"",
    "PRAGMA EXTERN f \"INTEGER (x : mut REAL[3], y : BIT[])\"",
    "CALL f ro 1 2.5 3i x y[2]",
    "DELAY 0 1",
    "DELAY 0 1 2e-6",
    "DELAY 0 \"rf\" \"ro\" 1e-6",
    "DELAY q 2*pi",
    "FENCE",
    "FENCE 0 1 q",
    "PULSE 0 \"rf\" flat(duration: 1e-6, iq: 1+0.5i)",
    "NONBLOCKING PULSE 0 1 \"cz\" gaussian(duration: 1e-6, fwhm: 2.5e-7, t0: 5e-7, scale: -0.5, phase: 0.25, detuning: 1e6)",
    "CAPTURE 0 \"ro_rx\" boxcar_kernel(duration: 1e-6) ro[0]",
    "NONBLOCKING RAW-CAPTURE 0 \"ro_rx\" 2e-6 ro",
    "SET-FREQUENCY 0 \"rf\" 5.1e9",
    "SHIFT-PHASE 0 1 \"cz\" -pi/2",
    "SWAP-PHASES 0 \"rf\" 1 \"rf\"",
    "LABEL @a\nJUMP-WHEN @a ro[0]\nJUMP-UNLESS @b-2 ro\nJUMP @a\nHALT\nNOP\nWAIT\nINCLUDE \"f.quil\"",
];

pub const DEFINITIONS: [&str; 17] = [
    "DEFCAL RX(%theta) q:\n\tPULSE q \"rf\" gaussian(duration: 1e-6, fwhm: 2.5e-7, t0: 5e-7, scale: %theta/pi)\n\tSHIFT-PHASE q \"rf\" -%theta",
    "DEFCAL DAGGER CONTROLLED X 0 q:\n    FENCE 0 q\n    NOP",
    "DEFCAL RX(pi/2) 0:\n    DELAY 0 \"rf\" 1e-7",
    "DEFCAL MEASURE q addr:\n    CAPTURE q \"ro_rx\" flat(duration: 1e-6, iq: 1) addr",
    "DEFCAL MEASURE 0:\n    NOP",
    "DEFCAL MEASURE!mid 1 dest:\n    RAW-CAPTURE 1 \"ro_rx\" 1e-6 dest",
    "DEFGATE H:\n    1/sqrt(2), 1/sqrt(2)\n    1/sqrt(2), -1/sqrt(2)",
    "DEFGATE PHASE(%a):\n    1, 0\n    0, cis(%a)",
    "DEFGATE P AS PERMUTATION:\n    0, 1, 3, 2",
    "DEFGATE S(%a) p q AS PAULI-SUM:\n    ZZ(-%a/4) p q\n    Z(%a/4) p\n    X(1) q",
    "DEFGATE T3(%a) p q r AS PAULI-SUM:\n    XZ(%a) q p\n    XYZ(1.5) r p q\n    YX(-1) r q",
    "DEFGATE seq(%t) a b AS SEQUENCE:\n    RX(%t) a\n    CNOT a b\n    DAGGER RZ(-%t/2) b",
    "DEFCIRCUIT BELL a b:\n    H a\n    CNOT a b",
    "DEFCIRCUIT ROT(%t, %u) q:\n    RX(%t) q\n    RZ(%u*2) q\n    MEASURE q ro",
    "DEFFRAME 0 \"rf\":\n    SAMPLE-RATE: 1e9\n    INITIAL-FREQUENCY: 5.1e9\n    DIRECTION: \"tx\"\n    HARDWARE-OBJECT: \"q0_rf\"",
    "DEFFRAME 0 1 \"cz\":\n    CENTER-FREQUENCY: 2*pi*1e8",
    "DEFWAVEFORM w(%a):\n    %a, 2*%a, 1+i, -0.5i",
];

/// Token alphabet for C01's exhaustive enumeration: one representative per token kind.
pub fn token_alphabet() -> Vec<&'static str> {
    let mut v: Vec<&'static str> = vec![
        "ADD", "AND", "AS", "CALL", "CAPTURE", "CONTROLLED", "CONVERT", "DAGGER", "DECLARE", "DEFCAL", "DEFCIRCUIT", "DEFFRAME", "DEFGATE",
        "DEFWAVEFORM", "DELAY", "DIV", "EQ", "EXCHANGE", "FENCE", "FORKED", "GE", "GT", "HALT", "INCLUDE", "IOR", "JUMP", "JUMP-UNLESS",
        "JUMP-WHEN", "LABEL", "LE", "LOAD", "LT", "MATRIX", "MEASURE", "MOVE", "MUL", "NEG", "NONBLOCKING", "NOP", "NOT", "OFFSET", "PAULI-SUM",
        "PERMUTATION", "PRAGMA", "PULSE", "RAW-CAPTURE", "RESET", "SEQUENCE", "SET-FREQUENCY", "SET-PHASE", "SET-SCALE", "SHARING",
        "SHIFT-FREQUENCY", "SHIFT-PHASE", "SHL", "SHR", "ASHR", "STORE", "SUB", "SWAP-PHASES", "WAIT", "XOR", "BIT", "INTEGER", "OCTET", "REAL",
        "mut", "EXTERN",
    ];
    v.extend_from_slice(&[
        "x", "ro", "i", "pi", "sin", "0", "1", "18446744073709551615", "18446744073709551616", "9223372036854775808", "0x1F", "0b", "1.5", "1e400",
        ".5", "\"s\"", "\"\"", "%v", "@t", "+", "-", "*", "/", "^", "(", ")", "[", "]", ",", ":", ";", "!", "\n", "\n    ", "\t", "# c", "ro[0]",
        "q", "2i", "%MOVE", "1_.__12345678901234567890_1", "1._2",
    ]);
    v
}

/// A program text assembled from the spelling templates (definitions first half of the time).
pub fn from_templates(src: &mut Src, max: usize) -> String {
    let n = 1 + src.below(max);
    let mut lines: Vec<&str> = vec![];
    for _ in 0..n {
        if src.chance(1, 5) {
            lines.push(*src.pick(&DEFINITIONS));
        } else {
            lines.push(*src.pick(&SPELLINGS));
        }
    }
    lines.join("\n")
}

/// The library's own text of an API-built program (placeholder-free), or None if it does not print.
pub fn from_api(src: &mut Src, depth: usize, max: usize, signed_call_immediates: bool) -> Option<String> {
    let mut cfg = Cfg::plain(depth);
    cfg.signed_call_immediates = signed_call_immediates;
    let list = instr::program(src, &cfg, max);
    Program::from_instructions(list).to_quil().ok()
}

/// An expression rendered by the harness's own printer, with spellings the library's printer never
/// chooses: every compound operand parenthesised (always valid) plus random redundant parentheses,
/// optional blanks around operators, upper-case function names and `PI`, bare memory names for
/// index 0, and alternative number spellings (`2`, `2.0`, `2e0`, `0x2`; `2i`, `2.0i`).
pub fn render_expression(src: &mut Src, e: &quil_rs::expression::Expression) -> String {
    use quil_rs::expression::{Expression, ExpressionFunction, InfixOperator, PrefixOperator};
    fn number(src: &mut Src, x: f64) -> String {
        if x >= 0.0 && x.fract() == 0.0 && x < 1e6 {
            let n = x as u64;
            match src.below(5) {
                0 => format!("{n}"),
                1 => format!("{n}.0"),
                2 => format!("{n}e0"),
                3 => format!("0x{n:x}"),
                _ => format!("{n}."),
            }
        } else {
            match src.below(2) {
                0 => format!("{x:?}"),
                _ => format!("{x:e}"),
            }
        }
    }
    let inner = match e {
        Expression::Number(c) => {
            let (re, im) = (c.re, c.im);
            let part = |src: &mut Src, x: f64| if x < 0.0 { format!("-{}", number(src, -x)) } else { number(src, x) };
            if im == 0.0 {
                if re < 0.0 {
                    format!("({})", part(src, re))
                } else {
                    part(src, re)
                }
            } else if re == 0.0 {
                if im < 0.0 {
                    format!("(-{}i)", number(src, -im))
                } else {
                    format!("{}i", number(src, im))
                }
            } else {
                format!("({}{}{}i)", part(src, re), if im < 0.0 { "-" } else { "+" }, number(src, im.abs()))
            }
        }
        Expression::PiConstant() => src.pick(&["pi", "PI", "Pi"]).to_string(),
        Expression::Variable(v) => format!("%{v}"),
        Expression::Address(m) => {
            if m.index == 0 && src.chance(1, 2) && !crate::gen::ident::is_expression_word(&m.name) {
                m.name.clone()
            } else {
                format!("{}[{}]", m.name, m.index)
            }
        }
        Expression::FunctionCall(f) => {
            let name = match f.function {
                ExpressionFunction::Cis => "cis",
                ExpressionFunction::Cosine => "cos",
                ExpressionFunction::Exponent => "exp",
                ExpressionFunction::Sine => "sin",
                ExpressionFunction::SquareRoot => "sqrt",
                #[allow(unreachable_patterns)]
                _ => "sin",
            };
            let name = if src.chance(1, 4) { name.to_uppercase() } else { name.to_string() };
            format!("{name}({})", render_expression(src, &f.expression))
        }
        Expression::Prefix(p) => {
            let op = match p.operator {
                PrefixOperator::Minus => "-",
                PrefixOperator::Plus => "",
            };
            let operand = render_expression(src, &p.expression);
            let compound = matches!(&*p.expression, Expression::Infix(_) | Expression::Prefix(_));
            if compound || src.chance(1, 4) {
                format!("{op}({operand})")
            } else {
                format!("{op}{operand}")
            }
        }
        Expression::Infix(i) => {
            let op = match i.operator {
                InfixOperator::Plus => "+",
                InfixOperator::Minus => "-",
                InfixOperator::Star => "*",
                InfixOperator::Slash => "/",
                InfixOperator::Caret => "^",
            };
            let mut side = |src: &mut Src, x: &Expression| {
                let t = render_expression(src, x);
                if matches!(x, Expression::Infix(_) | Expression::Prefix(_)) || src.chance(1, 5) {
                    format!("({t})")
                } else {
                    t
                }
            };
            let l = side(src, &i.left);
            let r = side(src, &i.right);
            match src.below(3) {
                0 => format!("{l}{op}{r}"),
                1 => format!("{l} {op} {r}"),
                _ => format!("{l} {op}{r}"),
            }
        }
    };
    if src.chance(1, 6) {
        format!("({inner})")
    } else {
        inner
    }
}

/// Instructions carrying harness-rendered expressions in every expression-bearing position.
pub fn expression_program(src: &mut Src, depth: usize, max: usize) -> String {
    let cfg = Cfg::plain(depth);
    let n = 1 + src.below(max);
    let mut lines = vec![];
    for _ in 0..n {
        let vars: Vec<String> = vec!["a".to_string(), "Tau".to_string()];
        let closed = instr::expr(src, &cfg, &[]);
        let e = render_expression(src, &closed);
        let line = match src.below(10) {
            0 => format!("RX({e}) 0"),
            1 => format!("CPHASE({e}) 0 1"),
            2 => format!("SET-FREQUENCY 0 \"rf\" {e}"),
            3 => format!("SHIFT-PHASE 0 \"rf\" {e}"),
            4 => format!("DELAY 0 \"rf\" {e}"),
            5 => format!("RAW-CAPTURE 0 \"ro\" {e} ro"),
            6 => format!("PULSE 0 \"rf\" gaussian(duration: {e}, fwhm: 1e-8, t0: 0)"),
            7 => format!("DEFFRAME 0 \"rf\":\n    SAMPLE-RATE: {e}"),
            8 => {
                let open = instr::expr(src, &cfg, &vars);
                let o = render_expression(src, &open);
                format!("DEFGATE G(%a, %Tau):\n    {o}, 0\n    0, {e}")
            }
            _ => {
                let open = instr::expr(src, &cfg, &vars);
                let o = render_expression(src, &open);
                format!("DEFCAL RX(%a, %Tau) q:\n    SHIFT-PHASE q \"rf\" {o}\n    RZ({e}) q")
            }
        };
        lines.push(line);
    }
    lines.join("\n")
}

/// Style changes that keep a text's meaning: comments, blank lines, trailing blanks, tabs for
/// the four-space indent, `;` between top-level instructions when no block follows.
pub fn restyle(src: &mut Src, text: &str) -> String {
    let has_blocks = text.contains("\n    ") || text.contains("\n\t");
    let mut out = String::new();
    let use_tabs = src.chance(1, 3);
    let lines: Vec<&str> = text.split('\n').collect();
    // quoted strings may span lines: only touch line ends that are outside a string
    let mut in_string = false;
    for (k, line) in lines.iter().enumerate() {
        let starts_in_string = in_string;
        let mut escaped = false;
        for c in line.chars() {
            if escaped {
                escaped = false;
            } else if c == '\\' && in_string {
                escaped = true;
            } else if c == '"' {
                in_string = !in_string;
            }
        }
        let body = if use_tabs && !starts_in_string && line.starts_with("    ") { format!("\t{}", &line[4..]) } else { line.to_string() };
        out.push_str(&body);
        if k + 1 == lines.len() {
            break;
        }
        if in_string {
            out.push('\n');
            continue;
        }
        match src.below(12) {
            0 => out.push_str(" # a comment\n"),
            1 => out.push_str("  \n"),
            2 => out.push_str("\n\n"),
            3 => out.push_str("\n# full-line comment\n"),
            4 if !has_blocks && !line.trim().is_empty() && !line.trim_start().starts_with('#') => out.push_str("; "),
            _ => out.push('\n'),
        }
    }
    out
}

/// Replace the contents of some quoted strings by strings that need escaping (`\"`, `\\`), span
/// lines, or contain characters that end an instruction elsewhere (`#`, `;`). The text stays
/// lexically well-formed; whether it still parses (an EXTERN signature does not survive this) is
/// for the parser to say.
pub fn respell_strings(src: &mut Src, text: &str) -> String {
    const PIECES: [&str; 14] = ["\\\"", "\\\\", "a", "B", " ", "#", ";", "\n", "\u{e9}", "%", "@", ":", "0", "-"];
    let mut out = String::new();
    let mut chars = text.chars().peekable();
    let mut in_comment = false;
    while let Some(c) = chars.next() {
        if in_comment {
            if c == '\n' {
                in_comment = false;
            }
            out.push(c);
            continue;
        }
        if c == '#' {
            in_comment = true;
            out.push(c);
            continue;
        }
        if c != '"' {
            out.push(c);
            continue;
        }
        // inside a string: collect it up to the closing quote
        let mut content = String::new();
        let mut closed = false;
        while let Some(d) = chars.next() {
            if d == '\\' {
                content.push(d);
                if let Some(e) = chars.next() {
                    content.push(e);
                }
            } else if d == '"' {
                closed = true;
                break;
            } else {
                content.push(d);
            }
        }
        out.push('"');
        if closed && src.chance(1, 2) {
            for _ in 0..(1 + src.below(4)) {
                out.push_str(*src.pick(&PIECES));
            }
        } else {
            out.push_str(&content);
        }
        if closed {
            out.push('"');
        }
    }
    out
}

/// One token-level or byte-level mutation (may well make the text unparseable).
pub fn mutate(src: &mut Src, text: &str) -> String {
    let alphabet = token_alphabet();
    let chars: Vec<char> = text.chars().collect();
    if chars.is_empty() {
        return src.pick(&alphabet).to_string();
    }
    match src.below(9) {
        0..=4 => {
            // token level: split on single spaces / newlines, keeping the separators
            let mut tokens: Vec<String> = vec![];
            let mut cur = String::new();
            for c in &chars {
                if *c == ' ' || *c == '\n' {
                    if !cur.is_empty() {
                        tokens.push(std::mem::take(&mut cur));
                    }
                    tokens.push(c.to_string());
                } else {
                    cur.push(*c);
                }
            }
            if !cur.is_empty() {
                tokens.push(cur);
            }
            let at = src.below(tokens.len());
            match src.below(5) {
                0 => {
                    tokens.remove(at);
                }
                1 => {
                    let t = tokens[at].clone();
                    tokens.insert(at, t);
                }
                2 => {
                    let other = src.below(tokens.len());
                    tokens.swap(at, other);
                }
                3 => tokens[at] = src.pick(&alphabet).to_string(),
                _ => {
                    let t = src.pick(&alphabet).to_string();
                    tokens.insert(at, format!("{t} "));
                }
            }
            tokens.concat()
        }
        5 => {
            // truncate at a char boundary
            let at = src.below(chars.len() + 1);
            chars[..at].iter().collect()
        }
        6 => {
            let at = src.below(chars.len() + 1);
            let ins = *src.pick(&['"', '\\', '%', '@', '[', '(', ')', ']', '\u{e9}', '\u{1d11e}', '\0', '\r', '#', ';', ':', '!', '-', '+', '\t']);
            let mut v = chars.clone();
            v.insert(at, ins);
            v.into_iter().collect()
        }
        7 => {
            let at = src.below(chars.len());
            let mut v = chars.clone();
            v[at] = *src.pick(&['"', '\\', '%', '@', '[', '(', '0', 'x', '\n', ' ', '.', 'e', '_', 'i']);
            v.into_iter().collect()
        }
        _ => {
            let at = src.below(chars.len());
            let mut v = chars.clone();
            v.remove(at);
            v.into_iter().collect()
        }
    }
}

/// The repository's own Quil programs (tests and benches), split into top-level instructions and
/// grouped into small programs. Read once.
pub fn corpus() -> &'static Vec<String> {
    static CORPUS: std::sync::OnceLock<Vec<String>> = std::sync::OnceLock::new();
    CORPUS.get_or_init(|| {
        let mut out = vec![];
        let base = std::path::Path::new("/repo/quil-rs");
        let mut files: Vec<std::path::PathBuf> = vec![];
        for dir in ["tests/programs", "benches", "benches/quilc"] {
            if let Ok(rd) = std::fs::read_dir(base.join(dir)) {
                let mut v: Vec<_> = rd.flatten().map(|e| e.path()).filter(|p| p.extension().map(|e| e == "quil").unwrap_or(false)).collect();
                v.sort();
                files.extend(v);
            }
        }
        for f in files {
            let Ok(text) = std::fs::read_to_string(&f) else { continue };
            if text.len() <= 4000 {
                out.push(text.clone());
            }
            // top-level chunks: a line that does not start with whitespace starts a new instruction
            let mut chunks: Vec<String> = vec![];
            for line in text.lines() {
                if line.starts_with(' ') || line.starts_with('\t') || chunks.is_empty() {
                    if let Some(last) = chunks.last_mut() {
                        last.push('\n');
                        last.push_str(line);
                    } else {
                        chunks.push(line.to_string());
                    }
                } else {
                    chunks.push(line.to_string());
                }
            }
            // groups of 6 chunks, at most 400 groups per file
            for group in chunks.chunks(6).take(400) {
                out.push(group.join("\n"));
            }
        }
        out
    })
}
