//! Alphabet programs for the scheduling properties (C22–C25, C35): a few frames on overlapping
//! qubit sets, RF instructions with exactly representable (dyadic) durations, classical
//! instructions over three regions, and optional control flow.

use crate::engine::Src;
use crate::gen::{classical, rf};
use quil_rs::expression::Expression;
use quil_rs::instruction::{
    AttributeValue, FrameDefinition, FrameIdentifier, Instruction, Jump, JumpUnless, JumpWhen, Label, Pragma, Target, Waveform,
    WaveformDefinition,
};
use quil_rs::Program;

pub const REGIONS: [&str; 3] = ["ra", "rb", "rc"];

pub fn frames() -> Vec<FrameIdentifier> {
    vec![rf::frame(&[0], "a"), rf::frame(&[0], "b"), rf::frame(&[1], "a"), rf::frame(&[0, 1], "c")]
}

/// Frames a generated instruction may name: the four above plus one that is never defined.
pub fn nameable_frames() -> Vec<FrameIdentifier> {
    let mut f = frames();
    f.push(rf::frame(&[2], "z"));
    f
}

#[derive(Clone, Copy)]
pub struct Opts {
    pub classical: bool,
    pub control_flow: bool,
    pub reset: bool,
    /// memory references inside RF expressions / capture targets
    pub rf_memory: bool,
    /// only instructions whose duration the library documents
    pub timed_only: bool,
    /// probability (percent) that each frame is defined
    pub define_pct: u32,
    pub max_len: usize,
}

pub struct Generated {
    pub defined: Vec<FrameIdentifier>,
    pub body: Vec<Instruction>,
    pub program: Program,
}

fn dyadic_duration(src: &mut Src) -> f64 {
    // multiples of 1/8 in [0, 4]
    src.below(33) as f64 / 8.0
}

fn duration_expr(src: &mut Src, opts: &Opts) -> Expression {
    if opts.rf_memory && src.chance(1, 6) {
        Expression::Address(classical::mref(src, &REGIONS, 1))
    } else {
        rf::real(dyadic_duration(src))
    }
}

fn value_expr(src: &mut Src, opts: &Opts) -> Expression {
    if opts.rf_memory && src.chance(1, 4) {
        Expression::Address(classical::mref(src, &REGIONS, 1))
    } else {
        rf::real(src.below(8) as f64 / 4.0)
    }
}

pub fn rf_instruction(src: &mut Src, opts: &Opts) -> Instruction {
    let frames = nameable_frames();
    let f = |src: &mut Src| src.pick(&frames).clone();
    let waveform = |src: &mut Src| -> quil_rs::instruction::WaveformInvocation {
        match src.below(4) {
            0 => rf::waveform("flat", &[("duration", rf::real(dyadic_duration(src))), ("iq", rf::real(1.0))]),
            1 => {
                // either padding may be left out (it then counts as zero)
                let mut parameters = vec![("duration", rf::real(dyadic_duration(src)))];
                let which = src.below(4);
                let (left, right) = (rf::real(src.below(5) as f64 / 8.0), rf::real(src.below(5) as f64 / 8.0));
                // 0: both, 1: only the right one, 2: only the left one, 3: neither
                if which == 0 || which == 2 {
                    parameters.push(("pad_left", left));
                }
                if which == 0 || which == 1 {
                    parameters.push(("pad_right", right));
                }
                parameters.push(("fwhm", rf::real(0.5)));
                parameters.push(("t0", rf::real(0.25)));
                rf::waveform("gaussian", &parameters)
            }
            2 => rf::waveform("custom4", &[]),
            _ => rf::waveform("flat", &[("duration", rf::real(dyadic_duration(src))), ("iq", value_expr(src, opts))]),
        }
    };
    let kinds = if opts.timed_only { 9 } else { 11 };
    match src.below(kinds) {
        0 | 1 => {
            let fr = f(src);
            rf::pulse(src.chance(1, 2), &fr, waveform(src))
        }
        2 => {
            let fr = f(src);
            let w = waveform(src);
            let m = if opts.rf_memory { classical::mref(src, &REGIONS, 1) } else { rf::mref("ro", 0) };
            rf::capture(src.chance(1, 2), &fr, w, m)
        }
        3 => {
            let fr = f(src);
            let m = if opts.rf_memory { classical::mref(src, &REGIONS, 1) } else { rf::mref("ro", 0) };
            let d = duration_expr(src, opts);
            rf::raw_capture(src.chance(1, 2), &fr, d, m)
        }
        4 => {
            let qubits: &[&[u64]] = &[&[0], &[1], &[0, 1], &[1, 0], &[2]];
            let names: &[&[&str]] = &[&[], &[], &["a"], &["b"], &["a", "c"]];
            let q = *src.pick(qubits);
            let n = *src.pick(names);
            rf::delay(q, n, duration_expr(src, opts))
        }
        5 => {
            let sets: &[&[u64]] = &[&[], &[0], &[1], &[0, 1], &[2]];
            let s: &[u64] = *src.pick(sets);
            rf::fence(s)
        }
        6 => {
            let fr = f(src);
            match src.below(3) {
                0 => rf::set_frequency(&fr, value_expr(src, opts)),
                1 => rf::set_phase(&fr, value_expr(src, opts)),
                _ => rf::set_scale(&fr, value_expr(src, opts)),
            }
        }
        7 => {
            let fr = f(src);
            if src.chance(1, 2) {
                rf::shift_frequency(&fr, value_expr(src, opts))
            } else {
                rf::shift_phase(&fr, value_expr(src, opts))
            }
        }
        8 => {
            let a = f(src);
            let b = f(src);
            rf::swap_phases(&a, &b)
        }
        _ => {
            if opts.reset {
                match src.below(4) {
                    0 => rf::reset(None),
                    1 => rf::reset(Some(0)),
                    2 => rf::reset(Some(1)),
                    _ => rf::reset(Some(2)),
                }
            } else {
                rf::fence(&[0])
            }
        }
    }
}

pub fn generate(src: &mut Src, opts: &Opts) -> Generated {
    let all = frames();
    let defined: Vec<FrameIdentifier> = all.iter().filter(|_| src.chance(opts.define_pct, 100) || opts.define_pct >= 100).cloned().collect();
    let len = src.below(opts.max_len + 1);
    let mut body: Vec<Instruction> = vec![];
    for _ in 0..len {
        // rf, classical, nop/pragma, control flow
        let w_classical = if opts.classical { 3 } else { 0 };
        let w_misc = if opts.classical { 1 } else { 0 };
        let w_cf = if opts.control_flow { 1 } else { 0 };
        let i = match src.weighted(&[5, w_classical, w_misc, w_cf]) {
            0 => rf_instruction(src, opts),
            1 => {
                let k = src.below(classical::NUM_KINDS);
                classical::classical(src, k, &REGIONS)
            }
            2 => {
                if src.chance(1, 2) {
                    Instruction::Nop()
                } else {
                    Instruction::Pragma(Pragma { name: "P".into(), arguments: vec![], data: None })
                }
            }
            _ => match src.below(5) {
                0 => Instruction::Label(Label { target: Target::Fixed(format!("l{}", body.len())) }),
                1 => Instruction::Jump(Jump { target: Target::Fixed("l0".into()) }),
                2 => Instruction::JumpWhen(JumpWhen { target: Target::Fixed("l0".into()), condition: classical::mref(src, &REGIONS, 1) }),
                3 => Instruction::JumpUnless(JumpUnless { target: Target::Fixed("l0".into()), condition: classical::mref(src, &REGIONS, 1) }),
                _ => Instruction::Halt(),
            },
        };
        body.push(i);
    }
    let program = build_program(&defined, &body);
    Generated { defined, body, program }
}

pub fn build_program(defined: &[FrameIdentifier], body: &[Instruction]) -> Program {
    let mut p = Program::new();
    for f in defined {
        let mut attributes = quil_rs::instruction::FrameAttributes::new();
        // power-of-two sample rates keep sample_count / rate exact
        attributes.insert("SAMPLE-RATE".to_string(), AttributeValue::Expression(rf::real(8.0)));
        attributes.insert("INITIAL-FREQUENCY".to_string(), AttributeValue::Expression(rf::real(1e9)));
        p.add_instruction(Instruction::FrameDefinition(FrameDefinition { identifier: f.clone(), attributes }));
    }
    p.add_instruction(Instruction::WaveformDefinition(WaveformDefinition {
        name: "custom4".into(),
        definition: Waveform { matrix: vec![rf::real(1.0), rf::real(0.5), rf::real(0.25), rf::real(0.0)], parameters: vec![] },
    }));
    for i in body {
        p.add_instruction(i.clone());
    }
    p
}
