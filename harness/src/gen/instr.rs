//! Instructions of every kind, built only from what the public constructors / public fields accept
//! (C04, and the starting point of C02's texts). "Well-formed" here means: accepted by the
//! validating constructor where the type has one (`Gate::new`, `GateDefinition::new`,
//! `PauliSum::new`, `DefGateSequence::try_new`, `Call::try_new`, `CalibrationIdentifier::new`),
//! identifiers valid per `validate_user_identifier` in every name position, numbers finite, and
//! block bodies made of non-definition instructions.

use crate::engine::Src;
use crate::gen::expr::{self as gx, ExprCfg, Literals};
use crate::gen::ident;
use indexmap::IndexMap;
use num_complex::Complex64;
use quil_rs::expression::Expression;
use quil_rs::instruction::{
    Arithmetic, ArithmeticOperand, AttributeValue, BinaryLogic, BinaryOperand, CalibrationDefinition, CalibrationIdentifier, Call, Capture,
    CircuitDefinition, Comparison, ComparisonOperand, Convert, Declaration, DefGateSequence, Delay, Exchange, Fence, FrameDefinition,
    FrameIdentifier, Gate, GateDefinition, GateModifier, GateSpecification, Include, Instruction, Jump, JumpUnless, JumpWhen, Label, Load,
    MeasureCalibrationDefinition, MeasureCalibrationIdentifier, Measurement, MemoryReference, Move, Offset, PauliGate, PauliSum, PauliTerm,
    Pragma, PragmaArgument, Pulse, Qubit, QubitPlaceholder, RawCapture, Reset, ScalarType, SetFrequency, SetPhase, SetScale, Sharing,
    ShiftFrequency, ShiftPhase, Store, SwapPhases, Target, TargetPlaceholder, UnaryLogic, UnaryOperator, UnresolvedCallArgument, Vector,
    Waveform, WaveformDefinition, WaveformInvocation,
};

use super::classical::{ARITH, BINARY, COMPARE};

pub struct Cfg {
    pub expr_depth: usize,
    /// probability (percent) that a qubit / target slot of a body instruction is a placeholder
    pub placeholder_pct: u32,
    pub qph: Vec<QubitPlaceholder>,
    pub tph: Vec<TargetPlaceholder>,
    /// number ranges for literals (Wide includes 1e±20 magnitudes and 17-digit values)
    pub wide_numbers: bool,
    /// CALL immediates may be negative or have both a real and an imaginary part
    pub signed_call_immediates: bool,
}

impl Cfg {
    pub fn plain(expr_depth: usize) -> Cfg {
        Cfg { expr_depth, placeholder_pct: 0, qph: vec![], tph: vec![], wide_numbers: true, signed_call_immediates: true }
    }
}

const NAMES: [&str; 10] = ["ro", "theta", "Beta", "x_1", "a-b", "REG", "m", "cnt", "Q", "in_2"];
const GATES: [&str; 8] = ["X", "RX", "CNOT", "CZ", "my-gate", "U", "Foo_1", "H"];

pub fn name(src: &mut Src) -> String {
    if src.chance(2, 3) {
        src.pick(&NAMES).to_string()
    } else {
        ident::ident_for_expression(src, 8)
    }
}

pub fn mref(src: &mut Src) -> MemoryReference {
    MemoryReference { name: name(src), index: src.below(4) as u64 }
}

fn qubit(src: &mut Src, cfg: &Cfg, vars: &[String]) -> Qubit {
    if !cfg.qph.is_empty() && src.chance(cfg.placeholder_pct, 100) {
        return Qubit::Placeholder(src.pick(&cfg.qph).clone());
    }
    if !vars.is_empty() && src.chance(1, 2) {
        return Qubit::Variable(src.pick(vars).clone());
    }
    match src.below(8) {
        0 => Qubit::Fixed(17),
        1 => Qubit::Fixed(u64::MAX),
        2 if vars.is_empty() => Qubit::Variable(src.pick(&["q", "Qb", "r-2"]).to_string()),
        n => Qubit::Fixed(n as u64 % 5),
    }
}

fn qubits(src: &mut Src, cfg: &Cfg, vars: &[String], min: usize, max: usize) -> Vec<Qubit> {
    let n = min + src.below(max - min + 1);
    (0..n).map(|_| qubit(src, cfg, vars)).collect()
}

fn target(src: &mut Src, cfg: &Cfg) -> Target {
    if !cfg.tph.is_empty() && src.chance(cfg.placeholder_pct, 100) {
        Target::Placeholder(src.pick(&cfg.tph).clone())
    } else {
        Target::Fixed(if src.chance(1, 2) { src.pick(&["start", "END", "loop-1", "L_0"]).to_string() } else { ident::ident(src, 8) })
    }
}

pub fn expr(src: &mut Src, cfg: &Cfg, vars: &[String]) -> Expression {
    let regions: Vec<(String, u64)> = vec![("theta".to_string(), 3), ("Beta".to_string(), 2)];
    let c = ExprCfg {
        max_depth: cfg.expr_depth as u32,
        vars,
        regions: &regions,
        literals: if cfg.wide_numbers { Literals::Wide } else { Literals::Moderate },
        share_pct: 5,
        prefix_plus: true,
        allow_pi: true,
        allow_variables: !vars.is_empty(),
        complex_numbers: true,
    };
    gx::expr(src, &c)
}

fn real_literal(src: &mut Src) -> f64 {
    match src.below(10) {
        0 => 1.0,
        1 => -2.0,
        2 => 0.0,
        3 => 0.5,
        4 => 1e300,
        5 => -1.5e-300,
        6 => 123456789.125,
        7 => 1e21,
        8 => src.range(-1000, 1000) as f64,
        _ => src.real(-10.0, 10.0),
    }
}

fn integer_literal(src: &mut Src) -> i64 {
    match src.below(6) {
        0 => 0,
        1 => -1,
        2 => i64::MAX,
        3 => i64::MIN,
        _ => src.range(-100, 100),
    }
}

fn arithmetic_operand(src: &mut Src) -> ArithmeticOperand {
    match src.below(3) {
        0 => ArithmeticOperand::MemoryReference(mref(src)),
        1 => ArithmeticOperand::LiteralInteger(integer_literal(src)),
        _ => ArithmeticOperand::LiteralReal(real_literal(src)),
    }
}

fn frame_name(src: &mut Src) -> String {
    string_value(src, &["rf", "ro_rx", "q0 xy", "Flux-1", "a/b", "", "x"])
}

/// A string value: usually one of `pool`, one time in four 1..5 pieces over characters that the
/// writer has to escape or that end an instruction elsewhere (runs of backslashes and quotes
/// included).
fn string_value(src: &mut Src, pool: &[&str]) -> String {
    if src.chance(3, 4) {
        return src.pick(pool).to_string();
    }
    const PIECES: [&str; 12] = ["\\", "\"", "a", "B", " ", "#", ";", "\n", "\u{e9}", "%", ":", "0"];
    (0..1 + src.below(5)).map(|_| *src.pick(&PIECES)).collect()
}

fn frame(src: &mut Src, cfg: &Cfg, vars: &[String]) -> FrameIdentifier {
    FrameIdentifier { name: frame_name(src), qubits: qubits(src, cfg, vars, 1, 2) }
}

fn waveform_invocation(src: &mut Src, cfg: &Cfg, vars: &[String]) -> WaveformInvocation {
    let name = src.pick(&["flat", "gaussian", "my_wf", "q0_ro/filter", "W-2", "erf_square"]).to_string();
    let n = src.below(4);
    let mut parameters = IndexMap::new();
    for _ in 0..n {
        let key = src.pick(&["duration", "iq", "fwhm", "t0", "scale", "Phase", "pad-left"]).to_string();
        parameters.insert(key, expr(src, cfg, vars));
    }
    WaveformInvocation { name, parameters }
}

fn modifiers(src: &mut Src) -> Vec<GateModifier> {
    let n = if src.chance(1, 3) { 1 + src.below(3) } else { 0 };
    (0..n).map(|_| *src.pick(&[GateModifier::Dagger, GateModifier::Controlled, GateModifier::Forked])).collect()
}

fn gate(src: &mut Src, cfg: &Cfg, qvars: &[String], pvars: &[String]) -> Gate {
    let gname = if src.chance(3, 4) { src.pick(&GATES).to_string() } else { ident::ident(src, 8) };
    let np = src.below(3);
    let parameters = (0..np).map(|_| expr(src, cfg, pvars)).collect();
    Gate::new(&gname, parameters, qubits(src, cfg, qvars, 1, 3), modifiers(src)).unwrap_or_else(|_| Gate::new("X", vec![], vec![Qubit::Fixed(0)], vec![]).unwrap())
}

/// A non-definition instruction; `qvars` / `pvars` are the qubit variables and `%` parameters in scope.
pub fn simple(src: &mut Src, cfg: &Cfg, qvars: &[String], pvars: &[String]) -> Instruction {
    match src.below(36) {
        0..=3 => Instruction::Gate(gate(src, cfg, qvars, pvars)),
        4 => Instruction::Measurement(Measurement {
            name: if src.chance(1, 4) { Some(ident::ident(src, 6)) } else { None },
            qubit: qubit(src, cfg, qvars),
            target: if src.chance(2, 3) { Some(mref(src)) } else { None },
        }),
        5 => Instruction::Reset(Reset { qubit: if src.chance(2, 3) { Some(qubit(src, cfg, qvars)) } else { None } }),
        6 => Instruction::Move(Move { destination: mref(src), source: arithmetic_operand(src) }),
        7 => Instruction::Arithmetic(Arithmetic { operator: *src.pick(&ARITH), destination: mref(src), source: arithmetic_operand(src) }),
        8 => Instruction::Comparison(Comparison {
            operator: *src.pick(&COMPARE),
            destination: mref(src),
            lhs: mref(src),
            rhs: match src.below(3) {
                0 => ComparisonOperand::MemoryReference(mref(src)),
                1 => ComparisonOperand::LiteralInteger(integer_literal(src)),
                _ => ComparisonOperand::LiteralReal(real_literal(src)),
            },
        }),
        9 => Instruction::BinaryLogic(BinaryLogic {
            operator: *src.pick(&BINARY),
            destination: mref(src),
            source: if src.chance(1, 2) { BinaryOperand::MemoryReference(mref(src)) } else { BinaryOperand::LiteralInteger(integer_literal(src)) },
        }),
        10 => Instruction::UnaryLogic(UnaryLogic { operator: if src.chance(1, 2) { UnaryOperator::Neg } else { UnaryOperator::Not }, operand: mref(src) }),
        11 => Instruction::Exchange(Exchange { left: mref(src), right: mref(src) }),
        12 => Instruction::Convert(Convert { destination: mref(src), source: mref(src) }),
        13 => Instruction::Load(Load { destination: mref(src), source: name(src), offset: mref(src) }),
        14 => Instruction::Store(Store { destination: name(src), offset: mref(src), source: arithmetic_operand(src) }),
        15 => Instruction::Pragma(Pragma {
            name: if src.chance(1, 2) { src.pick(&["INITIAL_REWIRING", "PRESERVE_BLOCK", "note-1"]).to_string() } else { ident::ident(src, 8) },
            arguments: (0..src.below(3))
                .map(|_| if src.chance(1, 2) { PragmaArgument::Identifier(ident::ident(src, 6)) } else { PragmaArgument::Integer(src.below(100) as u64) })
                .collect(),
            data: if src.chance(1, 2) { Some(string_value(src, &["NAIVE", "two words", "", "x : INTEGER"])) } else { None },
        }),
        16 => {
            let n = src.below(4);
            let arguments = (0..n)
                .map(|_| match src.below(4) {
                    0 => UnresolvedCallArgument::Identifier(name(src)),
                    1 => UnresolvedCallArgument::MemoryReference(mref(src)),
                    2 => UnresolvedCallArgument::Immediate(Complex64::new(src.below(10) as f64 / 2.0, 0.0)),
                    _ => {
                        let v = Complex64::new(src.range(-4, 4) as f64 / 2.0, src.range(-2, 2) as f64);
                        if cfg.signed_call_immediates {
                            UnresolvedCallArgument::Immediate(v)
                        } else if v.im != 0.0 {
                            // what the grammar can spell: a non-negative real or a non-negative imaginary number
                            UnresolvedCallArgument::Immediate(Complex64::new(0.0, v.im.abs()))
                        } else {
                            UnresolvedCallArgument::Immediate(Complex64::new(v.re.abs(), 0.0))
                        }
                    }
                })
                .collect();
            Instruction::Call(Call::try_new(ident::ident(src, 8), arguments).unwrap_or_else(|_| Call::try_new("f".into(), vec![]).unwrap()))
        }
        17 => Instruction::Pulse(Pulse { blocking: src.chance(1, 2), frame: frame(src, cfg, qvars), waveform: waveform_invocation(src, cfg, pvars) }),
        18 => Instruction::Capture(Capture {
            blocking: src.chance(1, 2),
            frame: frame(src, cfg, qvars),
            memory_reference: mref(src),
            waveform: waveform_invocation(src, cfg, pvars),
        }),
        19 => Instruction::RawCapture(RawCapture { blocking: src.chance(1, 2), frame: frame(src, cfg, qvars), duration: expr(src, cfg, pvars), memory_reference: mref(src) }),
        20 => Instruction::SetFrequency(SetFrequency { frame: frame(src, cfg, qvars), frequency: expr(src, cfg, pvars) }),
        21 => Instruction::SetPhase(SetPhase { frame: frame(src, cfg, qvars), phase: expr(src, cfg, pvars) }),
        22 => Instruction::SetScale(SetScale { frame: frame(src, cfg, qvars), scale: expr(src, cfg, pvars) }),
        23 => Instruction::ShiftFrequency(ShiftFrequency { frame: frame(src, cfg, qvars), frequency: expr(src, cfg, pvars) }),
        24 => Instruction::ShiftPhase(ShiftPhase { frame: frame(src, cfg, qvars), phase: expr(src, cfg, pvars) }),
        25 => Instruction::SwapPhases(SwapPhases { frame_1: frame(src, cfg, qvars), frame_2: frame(src, cfg, qvars) }),
        26 | 27 => Instruction::Delay(Delay {
            duration: expr(src, cfg, pvars),
            frame_names: (0..src.below(3)).map(|_| frame_name(src)).collect(),
            qubits: qubits(src, cfg, qvars, 0, 2),
        }),
        28 => Instruction::Fence(Fence { qubits: qubits(src, cfg, qvars, 0, 3) }),
        29 => Instruction::Label(Label { target: target(src, cfg) }),
        30 => Instruction::Jump(Jump { target: target(src, cfg) }),
        31 => Instruction::JumpWhen(JumpWhen { target: target(src, cfg), condition: mref(src) }),
        32 => Instruction::JumpUnless(JumpUnless { target: target(src, cfg), condition: mref(src) }),
        33 => Instruction::Nop(),
        34 => Instruction::Halt(),
        _ => Instruction::Wait(),
    }
}

fn block(src: &mut Src, cfg: &Cfg, qvars: &[String], pvars: &[String]) -> Vec<Instruction> {
    let inner = Cfg { expr_depth: cfg.expr_depth, placeholder_pct: 0, qph: vec![], tph: vec![], wide_numbers: cfg.wide_numbers, signed_call_immediates: cfg.signed_call_immediates };
    (0..1 + src.below(3)).map(|_| simple(src, &inner, qvars, pvars)).collect()
}

fn scalar(src: &mut Src) -> ScalarType {
    *src.pick(&[ScalarType::Bit, ScalarType::Integer, ScalarType::Octet, ScalarType::Real])
}

pub fn definition(src: &mut Src, cfg: &Cfg) -> Instruction {
    let no_ph = Cfg { expr_depth: cfg.expr_depth, placeholder_pct: 0, qph: vec![], tph: vec![], wide_numbers: cfg.wide_numbers, signed_call_immediates: cfg.signed_call_immediates };
    match src.below(12) {
        0 | 1 => Instruction::Declaration(Declaration {
            name: name(src),
            size: Vector { data_type: scalar(src), length: if src.chance(1, 2) { 1 } else { src.below(5) as u64 } },
            sharing: if src.chance(1, 3) {
                Some(Sharing { name: name(src), offsets: (0..src.below(3)).map(|_| Offset { offset: src.below(9) as u64, data_type: scalar(src) }).collect() })
            } else {
                None
            },
        }),
        2 => {
            let mut attributes = IndexMap::new();
            for _ in 0..1 + src.below(3) {
                let key = src.pick(&["SAMPLE-RATE", "INITIAL-FREQUENCY", "HARDWARE-OBJECT", "DIRECTION", "CENTER-FREQUENCY", "custom_key"]).to_string();
                let value = if src.chance(1, 2) {
                    AttributeValue::String(string_value(src, &["tx", "q0_rf", "a \"quoted\" name", ""]))
                } else {
                    AttributeValue::Expression(expr(src, &no_ph, &[]))
                };
                attributes.insert(key, value);
            }
            Instruction::FrameDefinition(FrameDefinition { identifier: frame(src, &no_ph, &[]), attributes })
        }
        3 => {
            let parameters: Vec<String> = (0..src.below(3)).map(|k| ["a", "Tau"][k].to_string()).collect();
            let n = 1 + src.below(4);
            Instruction::WaveformDefinition(WaveformDefinition {
                name: src.pick(&["my_wf", "W-2", "q0_ro/filter", "wf"]).to_string(),
                definition: Waveform { matrix: (0..n).map(|_| expr(src, &no_ph, &parameters)).collect(), parameters },
            })
        }
        4 | 5 => {
            let qvars: Vec<String> = vec!["q".into(), "r".into()];
            let pvars: Vec<String> = (0..src.below(3)).map(|k| ["t", "Phi"][k].to_string()).collect();
            let parameters: Vec<Expression> =
                pvars.iter().map(|v| Expression::Variable(v.clone())).chain((0..src.below(2)).map(|_| expr(src, &no_ph, &[]))).collect();
            let cal_qubits = qubits(src, &no_ph, &qvars, 1, 2);
            let gname = src.pick(&GATES).to_string();
            let identifier = CalibrationIdentifier::new(gname, modifiers(src), parameters, cal_qubits).expect("valid calibration identifier");
            Instruction::CalibrationDefinition(CalibrationDefinition { identifier, instructions: block(src, cfg, &qvars, &pvars) })
        }
        6 => {
            let qvars: Vec<String> = vec!["q".into()];
            let identifier = MeasureCalibrationIdentifier {
                name: if src.chance(1, 4) { Some(ident::ident(src, 6)) } else { None },
                qubit: qubit(src, &no_ph, &qvars),
                target: if src.chance(2, 3) { Some(src.pick(&["addr", "dest", "Out"]).to_string()) } else { None },
            };
            Instruction::MeasureCalibrationDefinition(MeasureCalibrationDefinition { identifier, instructions: block(src, cfg, &qvars, &[]) })
        }
        7 | 8 => {
            let gname = if src.chance(1, 2) { src.pick(&["MYGATE", "g-2", "Sqrt_X"]).to_string() } else { ident::ident(src, 8) };
            let pvars: Vec<String> = (0..src.below(3)).map(|k| ["a", "Beta"][k].to_string()).collect();
            let (parameters, specification) = match src.below(4) {
                0 => {
                    let n = if src.chance(3, 4) { 2 } else { 4 };
                    (pvars.clone(), GateSpecification::Matrix((0..n).map(|_| (0..n).map(|_| expr(src, &no_ph, &pvars)).collect()).collect()))
                }
                1 => (vec![], GateSpecification::Permutation(src.pick(&[vec![0u64, 1], vec![1, 0], vec![0, 2, 1, 3], vec![3, 2, 1, 0]]).clone())),
                2 => {
                    let args: Vec<String> = (0..1 + src.below(2)).map(|k| ["p", "q"][k].to_string()).collect();
                    let terms = (0..1 + src.below(3))
                        .map(|_| {
                            // the arguments of a term in signature order, reversed, or a proper
                            // subset (a word letter belongs to the argument at its own position)
                            let mut term_args: Vec<&String> = args.iter().collect();
                            match src.below(4) {
                                1 => term_args.reverse(),
                                2 if term_args.len() > 1 => {
                                    term_args.remove(0);
                                }
                                _ => {}
                            }
                            PauliTerm::new(
                                term_args.into_iter().map(|a| (*src.pick(&[PauliGate::I, PauliGate::X, PauliGate::Y, PauliGate::Z]), a.clone())).collect(),
                                expr(src, &no_ph, &pvars),
                            )
                        })
                        .collect();
                    (pvars.clone(), GateSpecification::PauliSum(PauliSum::new(args, terms).expect("terms use only the declared arguments")))
                }
                _ => {
                    let qv: Vec<String> = (0..1 + src.below(2)).map(|k| ["p", "q"][k].to_string()).collect();
                    let gates = (0..1 + src.below(3))
                        .map(|_| {
                            let mut g = gate(src, &no_ph, &qv, &pvars);
                            g.qubits = g.qubits.iter().map(|_| Qubit::Variable(src.pick(&qv).clone())).collect();
                            g
                        })
                        .collect();
                    (pvars.clone(), GateSpecification::Sequence(DefGateSequence::try_new(qv, gates).expect("elements use only the formal qubits")))
                }
            };
            Instruction::GateDefinition(GateDefinition::new(gname, parameters, specification).expect("valid gate name"))
        }
        9 => {
            let qvars: Vec<String> = (0..src.below(3)).map(|k| ["q", "r"][k].to_string()).collect();
            let pvars: Vec<String> = (0..src.below(3)).map(|k| ["t", "Phi"][k].to_string()).collect();
            Instruction::CircuitDefinition(CircuitDefinition {
                name: src.pick(&["BELL", "my-circuit", "C_1"]).to_string(),
                parameters: pvars.clone(),
                qubit_variables: qvars.clone(),
                instructions: block(src, cfg, &qvars, &pvars),
            })
        }
        10 => Instruction::Include(Include { filename: string_value(src, &["stdgates.quil", "a b.quil", "dir/file", ""]) }),
        _ => Instruction::Pragma(Pragma {
            name: "EXTERN".into(),
            arguments: vec![PragmaArgument::Identifier(ident::ident(src, 6))],
            data: Some(src.pick(&["(x : INTEGER)", "REAL (y : mut REAL[3], z : BIT[])", "INTEGER"]).to_string()),
        }),
    }
}

/// A program: definitions and simple instructions interleaved.
pub fn program(src: &mut Src, cfg: &Cfg, max_len: usize) -> Vec<Instruction> {
    let n = src.below(max_len + 1).max(src.below(max_len + 1));
    (0..n).map(|_| if src.chance(1, 3) { definition(src, cfg) } else { simple(src, cfg, &[], &[]) }).collect()
}

/// Label of the instruction's kind, for class histograms.
pub fn kind(i: &Instruction) -> &'static str {
    match i {
        Instruction::Arithmetic(_) => "Arithmetic",
        Instruction::BinaryLogic(_) => "BinaryLogic",
        Instruction::CalibrationDefinition(_) => "CalibrationDefinition",
        Instruction::Call(_) => "Call",
        Instruction::Capture(_) => "Capture",
        Instruction::CircuitDefinition(_) => "CircuitDefinition",
        Instruction::Convert(_) => "Convert",
        Instruction::Comparison(_) => "Comparison",
        Instruction::Declaration(_) => "Declaration",
        Instruction::Delay(_) => "Delay",
        Instruction::Exchange(_) => "Exchange",
        Instruction::Fence(_) => "Fence",
        Instruction::FrameDefinition(_) => "FrameDefinition",
        Instruction::Gate(_) => "Gate",
        Instruction::GateDefinition(_) => "GateDefinition",
        Instruction::Halt() => "Halt",
        Instruction::Include(_) => "Include",
        Instruction::Jump(_) => "Jump",
        Instruction::JumpUnless(_) => "JumpUnless",
        Instruction::JumpWhen(_) => "JumpWhen",
        Instruction::Label(_) => "Label",
        Instruction::Load(_) => "Load",
        Instruction::MeasureCalibrationDefinition(_) => "MeasureCalibrationDefinition",
        Instruction::Measurement(_) => "Measurement",
        Instruction::Move(_) => "Move",
        Instruction::Nop() => "Nop",
        Instruction::Pragma(_) => "Pragma",
        Instruction::Pulse(_) => "Pulse",
        Instruction::RawCapture(_) => "RawCapture",
        Instruction::Reset(_) => "Reset",
        Instruction::SetFrequency(_) => "SetFrequency",
        Instruction::SetPhase(_) => "SetPhase",
        Instruction::SetScale(_) => "SetScale",
        Instruction::ShiftFrequency(_) => "ShiftFrequency",
        Instruction::ShiftPhase(_) => "ShiftPhase",
        Instruction::Store(_) => "Store",
        Instruction::SwapPhases(_) => "SwapPhases",
        Instruction::UnaryLogic(_) => "UnaryLogic",
        Instruction::WaveformDefinition(_) => "WaveformDefinition",
        Instruction::Wait() => "Wait",
    }
}
