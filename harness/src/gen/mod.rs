//! Shared generators (decoders from the choice source).
