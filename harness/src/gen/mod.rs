//! Shared generators (decoders from the choice source).

pub mod calprog;
pub mod classical;
pub mod defs;
pub mod expr;
pub mod ident;
pub mod instr;
pub mod rf;
pub mod rfprog;
pub mod text;
