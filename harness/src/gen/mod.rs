//! Shared generators (decoders from the choice source).

pub mod expr;
pub mod ident;
