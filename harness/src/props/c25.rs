//! C25 — Computed schedules are as-soon-as-possible and frame-exclusive.
//!
//! Statement: "When a block's schedule in seconds can be computed, every timed instruction appears
//! exactly once, with the documented duration, starting when its last timed predecessor ends (or
//! at 0). No two instructions where one uses a frame the other uses or blocks overlap in time, and
//! the schedule's duration is the latest end time. When calibrations are expanded first, each
//! source instruction's time span exactly covers the spans of what it expanded to."
//!
//! Oracle: conflict-based ASAP reference `start_j = max(0, max{end_i : i<j, conflict(i,j)})`
//! with durations from the documentation of `instruction_duration_seconds` (template waveform:
//! duration + pad_left + pad_right; DEFWAVEFORM: samples / common SAMPLE-RATE of the used frames;
//! DELAY / RAW-CAPTURE: the named duration; FENCE, SET-*, SHIFT-*, SWAP-PHASES: 0). All durations
//! are dyadic rationals, so comparisons are exact.

use super::sched::{self, Edges, Frames};
use crate::engine::{lib, Check, Ctx, Outcome, Property, Src, Tier};
use crate::gen::rfprog::{self, Opts};
use crate::{ensure, fail};
use quil_rs::expression::Expression;
use quil_rs::instruction::{
    CalibrationDefinition, CalibrationIdentifier, DefaultHandler, Gate, Instruction, Qubit,
};
use quil_rs::program::analysis::ControlFlowGraph;
use quil_rs::program::scheduling::{ExecutionDependency, ScheduledGraphNode, ScheduledProgram};
use quil_rs::Program;

pub struct C25Prop;
pub static C25: C25Prop = C25Prop;

fn real(e: &Expression) -> Option<f64> {
    match e {
        Expression::Number(n) if n.im == 0.0 => Some(n.re),
        _ => None,
    }
}

/// Documented duration; `None` when the documentation gives none (unknown waveform rate, …).
fn model_duration(program: &Program, i: &Instruction, frames: &Frames, defined_rate: f64) -> Option<f64> {
    match i {
        Instruction::Pulse(_) | Instruction::Capture(_) => {
            let w = match i {
                Instruction::Pulse(p) => &p.waveform,
                Instruction::Capture(c) => &c.waveform,
                _ => unreachable!(),
            };
            if let Some(def) = program.waveforms.get(&w.name) {
                // every used frame has the same SAMPLE-RATE in the generated programs
                if frames.used.is_empty() {
                    None
                } else {
                    Some(def.matrix.len() as f64 / defined_rate)
                }
            } else {
                let p = |k: &str| w.parameters.get(k).and_then(real);
                Some(p("duration")? + p("pad_left").unwrap_or(0.0) + p("pad_right").unwrap_or(0.0))
            }
        }
        Instruction::Delay(d) => real(&d.duration),
        Instruction::RawCapture(r) => real(&r.duration),
        Instruction::Fence(_)
        | Instruction::SetFrequency(_)
        | Instruction::SetPhase(_)
        | Instruction::SetScale(_)
        | Instruction::ShiftFrequency(_)
        | Instruction::ShiftPhase(_)
        | Instruction::SwapPhases(_) => Some(0.0),
        _ => None,
    }
}

struct Asap {
    start: Vec<f64>,
    end: Vec<f64>,
}

fn asap(frames: &[Frames], durations: &[f64]) -> Asap {
    let n = frames.len();
    let mut start = vec![0.0; n];
    let mut end = vec![0.0; n];
    for j in 0..n {
        let mut s: f64 = 0.0;
        for i in 0..j {
            if sched::conflict(&frames[i], &frames[j]) && end[i] > s {
                s = end[i];
            }
        }
        start[j] = s;
        end[j] = s + durations[j];
    }
    Asap { start, end }
}

fn check_plain(program: &Program, body: &[Instruction], text: &str, out: &mut Outcome) -> Check {
    let scheduled = match lib(|| ScheduledProgram::from_program(program, &DefaultHandler))? {
        Ok(s) => s,
        Err(e) => fail!("c25:does-not-schedule", "[{text}] failed to build a dependency graph: {e}"),
    };
    let blocks = scheduled.basic_blocks();
    if body.is_empty() {
        return Ok(());
    }
    ensure!(blocks.len() == 1, "harness:c25-blocks", "expected one block");
    let block = &blocks[0];
    let frames: Vec<Frames> = body.iter().map(|i| sched::matched(program, i).unwrap_or_default()).collect();
    let durations: Vec<Option<f64>> = body.iter().zip(frames.iter()).map(|(i, f)| model_duration(program, i, f, 8.0)).collect();
    let result = lib(|| block.as_schedule_seconds(program, &DefaultHandler))?;
    let schedule = match result {
        Ok(s) => s,
        Err(_) => {
            out.class("schedule-not-computable");
            ensure!(
                durations.iter().any(|d| d.is_none()),
                "c25:not-computable-with-known-durations",
                "[{text}]: every instruction has a documented duration but as_schedule_seconds failed"
            );
            return Ok(());
        }
    };
    out.class("schedule-computed");
    ensure!(durations.iter().all(|d| d.is_some()), "c25:computed-with-unknown-duration", "[{text}]: a schedule was computed although an instruction has no documented duration");
    let durations: Vec<f64> = durations.into_iter().map(|d| d.unwrap()).collect();
    let reference = asap(&frames, &durations);
    // each instruction exactly once
    let mut seen = vec![0usize; body.len()];
    for item in schedule.items() {
        ensure!(item.instruction_index < body.len(), "c25:bad-index", "[{text}]: schedule item for instruction {}", item.instruction_index);
        seen[item.instruction_index] += 1;
    }
    ensure!(seen.iter().all(|c| *c == 1), "c25:not-exactly-once", "[{text}]: instruction occurrence counts in the schedule: {seen:?}");
    let mut got_start = vec![0.0; body.len()];
    let mut got_end = vec![0.0; body.len()];
    for item in schedule.items() {
        let j = item.instruction_index;
        let (s, d) = (item.time_span.start_time.0, item.time_span.duration.0);
        got_start[j] = s;
        got_end[j] = s + d;
        ensure!(d == durations[j], "c25:duration", "[{text}]: instruction {j} scheduled with duration {d}, documented duration {}", durations[j]);
        ensure!(s == reference.start[j], "c25:start-not-asap", "[{text}]: instruction {j} starts at {s}; its last conflicting predecessor ends at {}", reference.start[j]);
    }
    // frame exclusivity, checked directly on the reported spans
    let mut has_conflict = false;
    let mut has_parallel = false;
    for i in 0..body.len() {
        for j in i + 1..body.len() {
            if sched::conflict(&frames[i], &frames[j]) {
                has_conflict = true;
                let overlap = got_start[i] < got_end[j] && got_start[j] < got_end[i];
                ensure!(!overlap, "c25:overlap", "[{text}]: conflicting instructions {i} and {j} overlap: [{}, {}) and [{}, {})", got_start[i], got_end[i], got_start[j], got_end[j]);
            } else {
                has_parallel = true;
            }
        }
    }
    out.nontrivial = body.len() >= 3 && has_conflict && has_parallel;
    let max_end = got_end.iter().cloned().fold(0.0, f64::max);
    ensure!(schedule.duration().0 == max_end, "c25:total-duration", "[{text}]: schedule duration {} but the latest end is {max_end}", schedule.duration().0);
    // starts against the graph's own timed predecessors
    let edges = Edges::of(block.get_dependency_graph());
    for j in 0..body.len() {
        let mut latest: f64 = 0.0;
        for (a, b, w) in &edges.all {
            if *b == ScheduledGraphNode::InstructionIndex(j) && w.contains(&ExecutionDependency::Scheduled) {
                if let ScheduledGraphNode::InstructionIndex(i) = a {
                    latest = latest.max(got_end[*i]);
                }
            }
        }
        ensure!(got_start[j] == latest, "c25:start-vs-graph", "[{text}]: instruction {j} starts at {} but its timed predecessors end at {latest}", got_start[j]);
    }
    Ok(())
}

/// Calibrated variant: gates G0..G2 on fixed qubits, each with a DEFCAL whose body is a generated
/// list of timed instructions; the reference expansion is plain concatenation.
fn check_calibrated(src: &mut Src, ctx: &Ctx, out: &mut Outcome) -> Check {
    let opts = Opts { classical: false, control_flow: false, reset: false, rf_memory: false, timed_only: true, define_pct: 100, max_len: 0 };
    let defined = rfprog::frames();
    let ncal = 1 + src.below(3);
    let mut cals: Vec<Vec<Instruction>> = vec![];
    for _ in 0..ncal {
        let len = 1 + src.below(3);
        cals.push((0..len).map(|_| rfprog::rf_instruction(src, &opts)).collect());
    }
    let len = 1 + src.below(ctx.tier.pick(6, 10));
    // body: either a calibrated gate or a plain timed instruction
    let mut body: Vec<Instruction> = vec![];
    let mut expansion: Vec<Vec<Instruction>> = vec![];
    for _ in 0..len {
        if src.chance(3, 5) {
            let k = src.below(ncal);
            body.push(Instruction::Gate(Gate::new(&format!("G{k}"), vec![], vec![Qubit::Fixed(0)], vec![]).unwrap()));
            expansion.push(cals[k].clone());
        } else {
            let i = rfprog::rf_instruction(src, &opts);
            expansion.push(vec![i.clone()]);
            body.push(i);
        }
    }
    let mut program = rfprog::build_program(&defined, &[]);
    for (k, c) in cals.iter().enumerate() {
        program.add_instruction(Instruction::CalibrationDefinition(CalibrationDefinition {
            identifier: CalibrationIdentifier::new(format!("G{k}"), vec![], vec![], vec![Qubit::Fixed(0)]).unwrap(),
            instructions: c.clone(),
        }));
    }
    for i in &body {
        program.add_instruction(i.clone());
    }
    let text = format!(
        "{} ; body: {}",
        cals.iter().enumerate().map(|(k, c)| format!("DEFCAL G{k} 0: [{}]", sched::texts(c))).collect::<Vec<_>>().join(" "),
        sched::texts(&body)
    );
    out.set_key(&text);
    out.class("calibrated");
    if ctx.render {
        out.render = Some(text.clone());
    }
    // reference: ASAP over the flattened expansion, then hulls
    let flat: Vec<Instruction> = expansion.iter().flatten().cloned().collect();
    let frames: Vec<Frames> = flat.iter().map(|i| sched::matched(&program, i).unwrap_or_default()).collect();
    let durations: Vec<Option<f64>> = flat.iter().zip(frames.iter()).map(|(i, f)| model_duration(&program, i, f, 8.0)).collect();
    let cfg = ControlFlowGraph::from(&program);
    let blocks = cfg.into_blocks();
    ensure!(blocks.len() == 1, "harness:c25-blocks", "expected one block");
    let got = lib(|| blocks[0].as_schedule_seconds(&program, &DefaultHandler))?;
    let schedule = match got {
        Ok(s) => s,
        Err(e) => {
            ensure!(durations.iter().any(|d| d.is_none()), "c25:calibrated-not-computable", "[{text}]: all durations documented but BasicBlock::as_schedule_seconds failed: {e}");
            out.class("schedule-not-computable");
            return Ok(());
        }
    };
    ensure!(durations.iter().all(|d| d.is_some()), "c25:computed-with-unknown-duration", "[{text}]: schedule computed although a duration is undocumented");
    let durations: Vec<f64> = durations.into_iter().map(|d| d.unwrap()).collect();
    let reference = asap(&frames, &durations);
    let mut offset = 0;
    let mut seen = vec![0usize; body.len()];
    let mut spans: Vec<(f64, f64)> = vec![];
    for ex in &expansion {
        let s = (offset..offset + ex.len()).map(|k| reference.start[k]).fold(f64::INFINITY, f64::min);
        let e = (offset..offset + ex.len()).map(|k| reference.end[k]).fold(0.0, f64::max);
        spans.push((s, e));
        offset += ex.len();
    }
    for item in schedule.items() {
        ensure!(item.instruction_index < body.len(), "c25:bad-index", "[{text}]: item for source instruction {}", item.instruction_index);
        seen[item.instruction_index] += 1;
        let (s, d) = (item.time_span.start_time.0, item.time_span.duration.0);
        let (es, ee) = spans[item.instruction_index];
        ensure!(
            s == es && s + d == ee,
            "c25:calibrated-span",
            "[{text}]: source instruction {} spans [{s}, {}) but its expansion spans [{es}, {ee})",
            item.instruction_index,
            s + d
        );
    }
    ensure!(seen.iter().all(|c| *c == 1), "c25:calibrated-not-exactly-once", "[{text}]: source instruction counts {seen:?}");
    let max_end = spans.iter().map(|s| s.1).fold(0.0, f64::max);
    ensure!(schedule.duration().0 == max_end, "c25:total-duration", "[{text}]: duration {} vs latest end {max_end}", schedule.duration().0);
    out.nontrivial = body.len() >= 3 && expansion.iter().any(|e| e.len() >= 2);
    Ok(())
}

impl Property for C25Prop {
    fn id(&self) -> &'static str {
        "C25"
    }
    fn rule(&self) -> &'static str {
        "random single-block programs of 0..10 (quick) / 0..16 (thorough) timed instructions (template waveforms with dyadic duration/pad_left/pad_right, a 4-sample DEFWAVEFORM on frames with SAMPLE-RATE 8, DELAY, RAW-CAPTURE, FENCE, SET/SHIFT, SWAP-PHASES) over frames {0 \"a\", 0 \"b\", 1 \"a\", 0 1 \"c\"} (95% defined) and one undefined frame; and a calibrated variant (gates G0..G2 with fixed-qubit DEFCALs of 1..3 timed instructions mixed with plain timed instructions). Non-trivial = >= 3 instructions with both a conflicting and a parallel pair (plain), or >= 3 source instructions with a multi-instruction expansion (calibrated); distinct by program text."
    }
    fn max_words(&self) -> usize {
        500
    }
    fn cases(&self, tier: Tier) -> u64 {
        tier.pick(60_000, 1_500_000)
    }
    fn run(&self, src: &mut Src, ctx: &Ctx, out: &mut Outcome) -> Check {
        if src.chance(1, 3) {
            return check_calibrated(src, ctx, out);
        }
        let opts = Opts { classical: false, control_flow: false, reset: false, rf_memory: false, timed_only: true, define_pct: 95, max_len: ctx.tier.pick(10, 16) };
        let g = rfprog::generate(src, &opts);
        let text = sched::texts(&g.body);
        out.set_key(&(g.defined.len(), &text));
        if ctx.render {
            out.render = Some(format!("frames {:?} ; {text}", g.defined.iter().map(sched::frame_text).collect::<Vec<_>>()));
        }
        check_plain(&g.program, &g.body, &text, out)
    }
    fn floors(&self) -> Vec<(&'static str, f64)> {
        vec![("schedule-computed", 0.3), ("calibrated", 0.2)]
    }
}
