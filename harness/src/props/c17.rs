//! C17 — Calibration expansion is a complete, faithful substitution.
//!
//! Statement: "Expanding calibrations replaces each body instruction that has a matching
//! calibration with that calibration's body, with the gate's qubits and parameters substituted for
//! the calibration's variables. For a measurement, its qubit replaces the qubit variable and its
//! target replaces uses of the target name, and other memory references stay as written.
//! Expansion repeats until no body instruction has a match, keeps unmatched instructions in order,
//! hoists declarations out of the body, and gives the same program with or without a source map."
//!
//! Oracle: `model::cal::expand` (recursive, with breadcrumb). Programs whose model expansion is
//! recursive or unbounded are skipped here (C18 owns them).

use crate::engine::{lib, Check, Ctx, Outcome, Property, Src, Tier};
use crate::gen::calprog::{self, CalOpts};
use crate::model::cal::{self, CalSet, Child, Expansion, Tree};
use crate::{ensure, fail};
use quil_rs::instruction::{Declaration, Instruction, Qubit};
use quil_rs::quil::Quil;
use quil_rs::Program;

pub struct C17Prop;
pub static C17: C17Prop = C17Prop;

pub fn texts(b: &[Instruction]) -> String {
    b.iter().map(|i| i.to_quil_or_debug().replace('\n', " ")).collect::<Vec<_>>().join(" | ")
}

pub struct ModelResult {
    pub body: Vec<Instruction>,
    pub declarations: Vec<Declaration>,
    /// per source body instruction
    pub per_source: Vec<Expansion>,
}

/// `Err` when the model finds the program recursive / unbounded.
pub fn model_expand(set: &CalSet, body: &[Instruction]) -> Result<ModelResult, cal::ExpandError> {
    let mut out = ModelResult { body: vec![], declarations: vec![], per_source: vec![] };
    for i in body {
        let ex = cal::expand(set, i, &mut vec![])?;
        match &ex {
            Expansion::Unchanged => out.body.push(i.clone()),
            Expansion::Expanded(list, _) => {
                for x in list {
                    if let Instruction::Declaration(d) = x {
                        out.declarations.push(d.clone());
                    } else if cal::is_body_instruction(x) {
                        out.body.push(x.clone());
                    }
                }
            }
        }
        out.per_source.push(ex);
    }
    Ok(out)
}

fn classify(tree: &Tree, set: &CalSet, depth: usize, out: &mut Outcome) {
    if depth >= 1 {
        out.class("nested");
    }
    if let Some(k) = tree.gate_cal {
        let id = &set.gates[k].identifier;
        if id.qubits.iter().any(|q| matches!(q, Qubit::Variable(_))) {
            out.class("variable-qubit");
            out.nontrivial = true;
        }
        if id.parameters.iter().any(|p| matches!(p, quil_rs::expression::Expression::Variable(_))) {
            out.class("parameterised");
            out.nontrivial = true;
        }
    }
    if let Some(k) = tree.measure_cal {
        out.class("measure");
        if matches!(set.measures[k].identifier.qubit, Qubit::Variable(_)) || set.measures[k].identifier.target.is_some() {
            out.nontrivial = true;
        }
    }
    for c in &tree.children {
        match c {
            Child::Unchanged(Instruction::Declaration(_)) => out.class("hoisted-declaration"),
            Child::Expanded(_, t) => classify(t, set, depth + 1, out),
            _ => {}
        }
    }
}

pub fn build(defs: &[Instruction], body: &[Instruction]) -> (Program, CalSet) {
    let mut p = Program::new();
    let mut set = CalSet::default();
    for d in defs {
        p.add_instruction(d.clone());
        set.insert(d);
    }
    for b in body {
        p.add_instruction(b.clone());
    }
    (p, set)
}

impl Property for C17Prop {
    fn id(&self) -> &'static str {
        "C17"
    }
    fn rule(&self) -> &'static str {
        "random programs: DECLARE ro BIT[2]; 0..4 (quick) / 0..6 (thorough) calibrations over gate names {A,B,C,RX} (fixed/variable qubits q,r; parameter %t or constant) and DEFCAL MEASURE (fixed/variable qubit, with/without target addr), bodies of 1..4 instructions drawn from gates (invoking the same names: nesting and cycles arise), MEASURE, RESET, PULSE, CAPTURE/RAW-CAPTURE (into addr / ro / other), DELAY, FENCE, SET/SHIFT, SWAP-PHASES, MOVE, PRAGMA LOAD-MEMORY, DECLARE, PRAGMA; top-level body of 1..5 gates/measurements/other instructions. Programs the model classifies as recursive are skipped. Non-trivial = an expansion substitutes a variable qubit, a %-parameter, or a measure qubit/target; distinct by program text."
    }
    fn max_words(&self) -> usize {
        700
    }
    fn cases(&self, tier: Tier) -> u64 {
        tier.pick(60_000, 1_500_000)
    }
    fn run(&self, src: &mut Src, ctx: &Ctx, out: &mut Outcome) -> Check {
        let opts = CalOpts { growth: false, max_cals: ctx.tier.pick(4, 6), max_body: 4 };
        let g = calprog::generate(src, &opts, 5);
        check(&g.definitions, &g.body, ctx, out)
    }
    fn run_text(&self, text: &str, ctx: &Ctx, out: &mut Outcome) -> Check {
        let (defs, body) = split_text(text)?;
        check(&defs, &body, ctx, out)
    }
    fn floors(&self) -> Vec<(&'static str, f64)> {
        vec![("expands", 0.2), ("nested", 0.03), ("parameterised", 0.03), ("measure", 0.03), ("hoisted-declaration", 0.01)]
    }
}

/// Parse a program text into (definitions, body) for hand-written regression cases.
pub fn split_text(text: &str) -> Result<(Vec<Instruction>, Vec<Instruction>), crate::engine::Failure> {
    use std::str::FromStr;
    let p = Program::from_str(text).map_err(|e| crate::engine::Failure { sig: "harness:text-does-not-parse".into(), msg: format!("{e}") })?;
    let body: Vec<Instruction> = p.body_instructions().cloned().collect();
    let all = p.to_instructions();
    let defs = all[..all.len() - body.len()].to_vec();
    Ok((defs, body))
}

fn check(definitions: &[Instruction], top: &[Instruction], ctx: &Ctx, out: &mut Outcome) -> Check {
    struct G<'a> {
        definitions: &'a [Instruction],
        body: &'a [Instruction],
    }
    let g = G { definitions, body: top };
    {
        let text = format!("{} ;; {}", texts(g.definitions), texts(g.body));
        out.set_key(&text);
        if ctx.render {
            out.render = Some(text.clone());
        }
        let (program, set) = build(g.definitions, g.body);
        let model = match model_expand(&set, g.body) {
            Ok(m) => m,
            Err(_) => {
                out.skip = Some("recursive-per-model");
                return Ok(());
            }
        };
        for ex in &model.per_source {
            if let Expansion::Expanded(_, t) = ex {
                out.class("expands");
                classify(t, &set, 0, out);
            }
        }
        let expanded = match lib(|| program.expand_calibrations())? {
            Ok(p) => p,
            Err(e) => fail!("c17:error", "[{text}]: expand_calibrations failed ({e}) although nothing is recursive"),
        };
        let body: Vec<Instruction> = expanded.body_instructions().cloned().collect();
        if body != model.body {
            // name the first differing instruction kind so that distinct root causes get distinct keys
            let k = body.iter().zip(model.body.iter()).position(|(a, b)| a != b).unwrap_or(body.len().min(model.body.len()));
            let kind = model.body.get(k).map(kind_of).unwrap_or("length");
            fail!(
                format!("c17:body:{kind}"),
                "[{text}]: expanded body is [{}], substitution gives [{}] (first difference at {k})",
                texts(&body),
                texts(&model.body)
            );
        }
        // declarations are hoisted: original regions plus the ones the expansions brought
        let mut expected_regions: Vec<(String, String)> =
            program.memory_regions.iter().map(|(n, r)| (n.clone(), format!("{:?}", r.size))).collect();
        for d in &model.declarations {
            expected_regions.retain(|(n, _)| n != &d.name);
            expected_regions.push((d.name.clone(), format!("{:?}", d.size)));
        }
        expected_regions.sort();
        let mut got_regions: Vec<(String, String)> = expanded.memory_regions.iter().map(|(n, r)| (n.clone(), format!("{:?}", r.size))).collect();
        got_regions.sort();
        ensure!(got_regions == expected_regions, "c17:declarations", "[{text}]: memory regions after expansion {got_regions:?}, expected {expected_regions:?}");
        ensure!(
            !body.iter().any(|i| matches!(i, Instruction::Declaration(_))),
            "c17:declaration-in-body",
            "[{text}]: a DECLARE stayed in the body"
        );
        // definitions survive
        ensure!(expanded.calibrations == program.calibrations, "c17:calibrations-changed", "[{text}]: calibrations changed by expansion");
        // fix-point
        for i in &body {
            let again = cal::expand(&set, i, &mut vec![]);
            ensure!(matches!(again, Ok(Expansion::Unchanged)), "harness:c17-fixpoint", "model output still expandable: {}", i.to_quil_or_debug());
        }
        match lib(|| expanded.expand_calibrations())? {
            Ok(again) => ensure!(again == expanded, "c17:not-a-fixpoint", "[{text}]: expanding the expanded program changes it"),
            Err(e) => fail!("c17:fixpoint-error", "[{text}]: expanding the expanded program failed: {e}"),
        }
        // with and without a source map
        match lib(|| program.expand_calibrations_with_source_map())? {
            Ok((with_map, _)) => ensure!(with_map == expanded, "c17:source-map-variant-differs", "[{text}]: expand_calibrations_with_source_map gives a different program"),
            Err(e) => fail!("c17:source-map-variant-error", "[{text}]: expand_calibrations_with_source_map failed: {e}"),
        }
        Ok(())
    }
}

pub fn kind_of(i: &Instruction) -> &'static str {
    match i {
        Instruction::Gate(_) => "gate",
        Instruction::Measurement(_) => "MEASURE",
        Instruction::Reset(_) => "RESET",
        Instruction::Pulse(_) => "PULSE",
        Instruction::Capture(_) => "CAPTURE",
        Instruction::RawCapture(_) => "RAW-CAPTURE",
        Instruction::Delay(_) => "DELAY",
        Instruction::Fence(_) => "FENCE",
        Instruction::SwapPhases(_) => "SWAP-PHASES",
        Instruction::SetFrequency(_) | Instruction::SetPhase(_) | Instruction::SetScale(_) | Instruction::ShiftFrequency(_) | Instruction::ShiftPhase(_) => "frame-update",
        Instruction::Pragma(_) => "PRAGMA",
        Instruction::Declaration(_) => "DECLARE",
        _ => "other",
    }
}
