//! C02 — Parsed programs print to text that re-parses to the same program.
//!
//! Statement: "If a text parses as a program P, then serializing P succeeds, the output parses to a
//! program equal to P, and serializing that program gives byte-identical text. This holds for every
//! instruction kind, including definitions, calibrations, frames, waveforms and control flow."
//!
//! Texts come from four sources: (1) spelling templates the printer never emits (literal forms,
//! redundant parentheses, bare memory names, implicit lengths, tab indents, …) combined at random;
//! (2) the library's own text of API-built programs of every instruction kind; (3) the
//! repository's `.quil` corpus; (4) expressions written by the harness's own printer in every
//! expression-bearing position; each optionally restyled (comments, blank lines, tabs, `;`) and
//! optionally hit by one token/byte mutation. A text that does not parse is outside the
//! property's domain and only counted.
//!
//! Oracle, for a text `t` with `Program::from_str(t) = Ok(P)`: `s1 = P.to_quil()` is `Ok`;
//! `Program::from_str(s1) = Ok(P2)`; `P2 == P`; `P2.to_quil() == Ok(s1)` byte for byte.

use crate::engine::{lib, Check, Ctx, Outcome, Property, Src, Tier};
use crate::gen::{instr, text};
use crate::{ensure, fail};
use quil_rs::instruction::Instruction;
use quil_rs::quil::Quil;
use quil_rs::Program;
use std::str::FromStr;

pub struct C02Prop;
pub static C02: C02Prop = C02Prop;

/// Which instruction (by kind) first breaks when printed and re-read on its own — keys findings by root cause.
fn culprit(p: &Program) -> String {
    /// Does `i`, printed on its own, read back as itself and print the same again?
    fn alone(i: &Instruction) -> Result<(), String> {
        let Ok(t) = i.to_quil() else { return Err(format!("{}:to-quil", instr::kind(i))) };
        match Program::from_str(&t) {
            Ok(q) => {
                let l = q.to_instructions();
                if l.len() != 1 || &l[0] != i {
                    return Err(format!("{}:{}", instr::kind(i), detail(i)));
                }
                if q.to_quil().ok().as_deref() != Some(&format!("{t}\n")) && q.to_quil().ok().as_deref() != Some(t.as_str()) {
                    return Err(format!("{}:second-print", instr::kind(i)));
                }
                Ok(())
            }
            Err(_) => Err(format!("{}:{}", instr::kind(i), detail(i))),
        }
    }
    for i in p.to_instructions() {
        if let Err(whole) = alone(&i) {
            // a definition that breaks because one instruction of its body does is keyed by that
            // instruction (same root cause wherever it stands)
            let body: &[Instruction] = match &i {
                Instruction::CalibrationDefinition(c) => &c.instructions,
                Instruction::MeasureCalibrationDefinition(c) => &c.instructions,
                Instruction::CircuitDefinition(c) => &c.instructions,
                _ => &[],
            };
            for b in body {
                if let Err(inner) = alone(b) {
                    return inner;
                }
            }
            return whole;
        }
    }
    "whole-program".into()
}

fn detail(i: &Instruction) -> &'static str {
    match i {
        Instruction::Gate(_) | Instruction::SetFrequency(_) | Instruction::SetPhase(_) | Instruction::SetScale(_) | Instruction::ShiftFrequency(_) | Instruction::ShiftPhase(_) => "expression",
        // `DELAY sin (2*pi)`: qubit variable `sin` and a parenthesised duration, or no qubit and the
        // duration sin(2*pi)? (known finding c02-delay-function-named-qubit)
        Instruction::Delay(d)
            if d.frame_names.is_empty()
                && matches!(d.qubits.last(), Some(quil_rs::instruction::Qubit::Variable(v)) if ["sin", "cos", "sqrt", "exp", "cis"].contains(&v.to_lowercase().as_str())) =>
        {
            "function-named-last-qubit"
        }
        Instruction::Delay(_) => "delay",
        Instruction::Move(_) | Instruction::Arithmetic(_) | Instruction::Comparison(_) | Instruction::Store(_) => "operand",
        _ => "other",
    }
}

pub fn oracle(t: &str, out: &mut Outcome) -> Check {
    let p = match lib(|| Program::from_str(t))? {
        Ok(p) => p,
        Err(_) => {
            out.class("rejected");
            out.skip = Some("text-does-not-parse");
            return Ok(());
        }
    };
    out.class("accepted");
    let listing = lib(|| p.to_instructions())?;
    for i in &listing {
        out.class(instr::kind(i));
    }
    out.nontrivial = listing.iter().any(|i| !matches!(i, Instruction::Nop() | Instruction::Halt() | Instruction::Wait() | Instruction::Fence(_) | Instruction::Reset(_)));
    let s1 = match lib(|| p.to_quil())? {
        Ok(s) => s,
        Err(e) => fail!(format!("c02:to-quil-error:{}", culprit(&p)), "text {t:?} parses, but the program does not serialize: {e:?}"),
    };
    let p2 = match lib(|| Program::from_str(&s1))? {
        Ok(p) => p,
        Err(e) => fail!(format!("c02:reparse-error:{}", culprit(&p)), "text {t:?} parses; its serialization does not:\n{s1}\nerror: {e}"),
    };
    if p2 != p {
        let (a, b) = (listing, lib(|| p2.to_instructions())?);
        let first = a.iter().zip(b.iter()).find(|(x, y)| x != y).map(|(x, y)| format!("{x:?}\n   became\n{y:?}")).unwrap_or_else(|| format!("{} instructions became {}", a.len(), b.len()));
        fail!(format!("c02:program-changed:{}", culprit(&p)), "text {t:?} parses to P; P prints as\n{s1}\nwhich parses to a different program: {first}");
    }
    let s2 = match lib(|| p2.to_quil())? {
        Ok(s) => s,
        Err(e) => fail!("c02:second-to-quil-error", "the re-parsed program does not serialize: {e:?}"),
    };
    ensure!(s2 == s1, format!("c02:second-print-differs:{}", culprit(&p)), "the re-parsed program prints differently:\n--- first:\n{s1}\n--- second:\n{s2}");
    Ok(())
}

impl Property for C02Prop {
    fn id(&self) -> &'static str {
        "C02"
    }
    fn rule(&self) -> &'static str {
        "texts from (1) 96 instruction spellings the printer never emits (radix / exponent / separator literals, i64 extremes, 1.0-style reals, redundant parentheses, nested negation, right- and left-nested - / ^, complex literals, bare memory names, upper-case pi / functions, implicit lengths, named measurements, DELAY forms, NONBLOCKING forms) and 17 definition spellings (tab-indented DEFCAL, DEFCAL with modifiers / MEASURE forms, all four DEFGATE kinds incl. Pauli terms whose arguments are not in signature order, DEFCIRCUIT, DEFFRAME, DEFWAVEFORM), 1..8 (quick) / 1..14 (thorough) per program; (2) the printed text of API-built programs of every instruction and definition kind (the C04 generator); (3) the repository's .quil corpus in groups of 6 instructions; (4) instructions of every expression-bearing kind whose expressions (depth <= 3/5, full literal zoo) are written by the harness's own printer with redundant parentheses, blanks, upper-case names, bare memory names and alternative number spellings; with probability 1/4 every quoted string of the text is replaced (1 in 2 each) by 1..4 pieces from {\\\", \\\\, letters, blank, #, ;, newline, e-acute, %, @, :, 0, -}; each restyled with probability 1/2 (comments, blank lines, trailing blanks, tab indents, ';' separators) and hit by one token / byte mutation with probability 1/4. Non-trivial = the text parses to a program with an instruction other than NOP/HALT/WAIT/FENCE/RESET; distinct by text hash."
    }
    fn guided(&self) -> bool {
        false
    }
    fn max_words(&self) -> usize {
        4000
    }
    fn cases(&self, tier: Tier) -> u64 {
        tier.pick(60_000, 1_000_000)
    }
    fn run(&self, src: &mut Src, ctx: &Ctx, out: &mut Outcome) -> Check {
        let restyle = src.chance(1, 2);
        let mutate = src.chance(1, 4);
        let respell = src.chance(1, 4);
        let source = src.weighted(&[4, 4, 1, 3]);
        let signed = !ctx.is_active("c04-call-signed-or-complex-immediate");
        let mut t = match source {
            0 => {
                out.class("source:templates");
                text::from_templates(src, ctx.tier.pick(8, 14))
            }
            1 => {
                out.class("source:api-printed");
                text::from_api(src, ctx.tier.pick(3, 4), ctx.tier.pick(6, 10), signed).unwrap_or_default()
            }
            3 => {
                out.class("source:rendered-expressions");
                text::expression_program(src, ctx.tier.pick(3, 5), ctx.tier.pick(4, 8))
            }
            _ => {
                out.class("source:corpus");
                let c = text::corpus();
                if c.is_empty() {
                    String::new()
                } else {
                    c[src.below(c.len())].clone()
                }
            }
        };
        if respell && t.contains('"') {
            t = text::respell_strings(src, &t);
            out.class("strings-respelled");
        }
        if restyle {
            t = text::restyle(src, &t);
            out.class("restyled");
        }
        if mutate {
            t = text::mutate(src, &t);
            out.class("mutated");
        }
        out.set_key(&t);
        if ctx.render {
            out.render = Some(format!("{t:?}"));
        }
        oracle(&t, out)
    }
    fn run_text(&self, text: &str, _ctx: &Ctx, out: &mut Outcome) -> Check {
        out.set_key(text);
        oracle(text, out)
    }
    fn floors(&self) -> Vec<(&'static str, f64)> {
        vec![("accepted", 0.6), ("source:templates", 0.3), ("source:api-printed", 0.3), ("source:corpus", 0.05), ("source:rendered-expressions", 0.15), ("restyled", 0.3), ("strings-respelled", 0.05), ("CalibrationDefinition", 0.05), ("GateDefinition", 0.05), ("Delay", 0.03)]
    }
}
