//! C06 — Names are preserved exactly and consistently by parsing.
//!
//! Statement: "Every identifier in program text reaches the parsed program byte-for-byte, with the
//! same letter case. This covers memory regions, labels, gate, waveform and frame names, variables,
//! pragma names and qubit variables. The same spelling of a memory region denotes the same region
//! wherever it appears, including inside expressions, except for the reserved words pi, i and the
//! expression functions."
//!
//! A case is (position, identifier). The identifier is substituted into the position's text
//! template, the text is parsed, and every place of the parsed program where that name must appear
//! is read back by pattern matching and compared byte for byte. For memory-region positions a
//! consistency program is checked as well: `DECLARE N REAL[2]` followed by uses of `N` bare and
//! indexed, inside and outside expressions, must mention only the region `N`, and its type-check
//! verdict must be the verdict of the same program with an all-lowercase name.

use crate::engine::{lib, Check, Ctx, Outcome, Property, Src, Tier};
use crate::gen::ident;
use crate::{ensure, fail};
use quil_rs::expression::Expression;
use quil_rs::instruction::{
    ArithmeticOperand, AttributeValue, ComparisonOperand, GateSpecification, Instruction, PragmaArgument, Qubit, Target, UnresolvedCallArgument,
};
use quil_rs::program::type_check::type_check;
use quil_rs::Program;
use std::str::FromStr;

pub struct C06Prop;
pub static C06: C06Prop = C06Prop;

struct Position {
    name: &'static str,
    /// `{}` is replaced by the identifier
    template: &'static str,
    /// the identifier stands where an expression is expected (pi, i, sin, … mean something else)
    in_expression: bool,
    /// how many places of the parsed program must show the name
    expect: usize,
}

const fn p(name: &'static str, template: &'static str, in_expression: bool, expect: usize) -> Position {
    Position { name, template, in_expression, expect }
}

const POSITIONS: [Position; 64] = [
    p("declare", "DECLARE {} REAL[2]", false, 1),
    p("sharing", "DECLARE a BIT SHARING {}", false, 1),
    p("sharing-offset", "DECLARE a BIT SHARING {} OFFSET 1 BIT", false, 1),
    p("move-destination", "MOVE {}[1] 1", false, 1),
    p("move-destination-bare", "MOVE {} 1", false, 1),
    p("move-source", "MOVE a {}", false, 1),
    p("move-source-indexed", "MOVE a {}[1]", false, 1),
    p("add", "ADD {} {}", false, 2),
    p("neg", "NEG {}", false, 1),
    p("and", "AND {} {}[1]", false, 2),
    p("exchange", "EXCHANGE {} {}[1]", false, 2),
    p("convert", "CONVERT {}[1] {}", false, 2),
    p("comparison", "EQ {} {}[1] {}", false, 3),
    p("load", "LOAD {} {} {}[1]", false, 3),
    p("store", "STORE {} {}[1] {}", false, 3),
    p("measure-target", "MEASURE 0 {}", false, 1),
    p("measure-target-indexed", "MEASURE 0 {}[1]", false, 1),
    p("capture-target", "CAPTURE 0 \"f\" flat(duration: 1.0, iq: 1.0) {}[1]", false, 1),
    p("raw-capture-target", "RAW-CAPTURE 0 \"f\" 1.0 {}", false, 1),
    p("jump-when-condition", "JUMP-WHEN @l {}[1]", false, 1),
    p("expression-bare", "RX({}) 0", true, 1),
    p("expression-indexed", "RX({}[1]) 0", true, 1),
    p("expression-nested-bare", "RX(2*{}+cos({})) 0", true, 2),
    p("expression-frame", "SET-PHASE 0 \"f\" {}", true, 1),
    p("expression-delay", "DELAY 0 {}", true, 1),
    p("expression-waveform-parameter", "PULSE 0 \"f\" flat(duration: {}, iq: 1.0)", true, 1),
    p("label", "LABEL @{}", false, 1),
    p("jump", "JUMP @{}", false, 1),
    p("jump-when", "JUMP-WHEN @{} ro", false, 1),
    p("jump-unless", "JUMP-UNLESS @{} ro[1]", false, 1),
    p("gate-application", "{} 0", false, 1),
    p("gate-application-modified", "DAGGER CONTROLLED {}(0.5) 0 1", false, 1),
    p("defgate", "DEFGATE {}:\n    1, 0\n    0, 1", false, 1),
    p("defgate-sequence-element", "DEFGATE S p AS SEQUENCE:\n    {} p", false, 1),
    p("defcal", "DEFCAL {} 0:\n    NOP", false, 1),
    p("defcircuit", "DEFCIRCUIT {}:\n    NOP", false, 1),
    p("defgate-parameter", "DEFGATE G(%{}):\n    cos(%{}), 0\n    0, 1", false, 2),
    p("defcal-parameter", "DEFCAL RX(%{}) 0:\n    RZ(%{}) 0", false, 2),
    p("defcircuit-parameter", "DEFCIRCUIT C(%{}) q:\n    RX(%{}) q", false, 2),
    p("defcal-qubit-variable", "DEFCAL X {}:\n    Y {}", false, 2),
    p("defcircuit-qubit-variable", "DEFCIRCUIT C {}:\n    X {}", false, 2),
    p("defgate-sequence-qubit", "DEFGATE S {} AS SEQUENCE:\n    H {}", false, 1),
    p("defcal-measure", "DEFCAL MEASURE {} {}:\n    NOP", false, 2),
    p("waveform-invocation", "PULSE 0 \"f\" {}", false, 1),
    p("waveform-invocation-parameters", "PULSE 0 \"f\" {}(duration: 1.0)", false, 1),
    p("defwaveform", "DEFWAVEFORM {}:\n    1.0, 0.5", false, 1),
    p("waveform-parameter-key", "PULSE 0 \"f\" w({}: 1.0)", false, 1),
    p("frame-attribute-key", "DEFFRAME 0 \"f\":\n    {}: 1.0", false, 1),
    p("pragma-name", "PRAGMA {}", false, 1),
    p("pragma-argument", "PRAGMA P {} 1 {}", false, 2),
    p("call", "CALL {} {} {}[1]", false, 3),
    p("measure-name", "MEASURE!{} 0 ro", false, 1),
    p("qubit-variable-gate", "CNOT 0 {}", false, 1),
    p("qubit-variable-measure", "MEASURE {} ro", false, 1),
    p("qubit-variable-reset", "RESET {}", false, 1),
    p("qubit-variable-fence", "FENCE 0 {}", false, 1),
    p("qubit-variable-pulse", "PULSE {} \"f\" w", false, 1),
    p("qubit-variable-set-phase", "SET-PHASE {} \"f\" 1.0", false, 1),
    p("qubit-variable-delay", "DELAY {} 1.0", false, 1),
    p("qubit-variable-delay-grouped", "DELAY {} (2*pi)", true, 1),
    p("qubit-variable-delay-two", "DELAY 0 {} (1+2)", true, 1),
    p("qubit-variable-delay-frames", "DELAY {} \"f\" 2*pi", false, 1),
    // a name directly behind a numeric literal (where a literal's suffix would stand)
    p("call-after-immediate", "CALL f 2 {} 1.5 {}", false, 2),
    p("raw-capture-after-integer", "RAW-CAPTURE 0 \"f\" 2 {}", false, 1),
];

fn addresses(e: &Expression, out: &mut Vec<String>) {
    match e {
        Expression::Address(m) => out.push(m.name.clone()),
        Expression::Variable(v) => out.push(v.clone()),
        Expression::Infix(i) => {
            addresses(&i.left, out);
            addresses(&i.right, out);
        }
        Expression::Prefix(p) => addresses(&p.expression, out),
        Expression::FunctionCall(f) => addresses(&f.expression, out),
        _ => {}
    }
}

fn qvar(q: &Qubit) -> Vec<String> {
    match q {
        Qubit::Variable(v) => vec![v.clone()],
        other => vec![format!("<{other:?}>")],
    }
}

fn tname(t: &Target) -> String {
    match t {
        Target::Fixed(s) => s.clone(),
        Target::Placeholder(p) => format!("<placeholder {}>", p.as_inner()),
    }
}

/// The names found at the places the position is about.
fn extract(position: &str, i: &Instruction) -> Option<Vec<String>> {
    let arith = |o: &ArithmeticOperand| match o {
        ArithmeticOperand::MemoryReference(m) => m.name.clone(),
        other => format!("<{other:?}>"),
    };
    let ex = |e: &Expression| {
        let mut v = vec![];
        addresses(e, &mut v);
        v
    };
    Some(match (position, i) {
        ("declare", Instruction::Declaration(d)) => vec![d.name.clone()],
        ("sharing" | "sharing-offset", Instruction::Declaration(d)) => vec![d.sharing.as_ref()?.name.clone()],
        ("move-destination" | "move-destination-bare", Instruction::Move(m)) => vec![m.destination.name.clone()],
        ("move-source" | "move-source-indexed", Instruction::Move(m)) => vec![arith(&m.source)],
        ("add", Instruction::Arithmetic(a)) => vec![a.destination.name.clone(), arith(&a.source)],
        ("neg", Instruction::UnaryLogic(u)) => vec![u.operand.name.clone()],
        ("and", Instruction::BinaryLogic(b)) => vec![
            b.destination.name.clone(),
            match &b.source {
                quil_rs::instruction::BinaryOperand::MemoryReference(m) => m.name.clone(),
                other => format!("<{other:?}>"),
            },
        ],
        ("exchange", Instruction::Exchange(x)) => vec![x.left.name.clone(), x.right.name.clone()],
        ("convert", Instruction::Convert(c)) => vec![c.destination.name.clone(), c.source.name.clone()],
        ("comparison", Instruction::Comparison(c)) => vec![
            c.destination.name.clone(),
            c.lhs.name.clone(),
            match &c.rhs {
                ComparisonOperand::MemoryReference(m) => m.name.clone(),
                other => format!("<{other:?}>"),
            },
        ],
        ("load", Instruction::Load(l)) => vec![l.destination.name.clone(), l.source.clone(), l.offset.name.clone()],
        ("store", Instruction::Store(s)) => vec![s.destination.clone(), s.offset.name.clone(), arith(&s.source)],
        ("measure-target" | "measure-target-indexed", Instruction::Measurement(m)) => vec![m.target.as_ref()?.name.clone()],
        ("capture-target", Instruction::Capture(c)) => vec![c.memory_reference.name.clone()],
        ("raw-capture-target" | "raw-capture-after-integer", Instruction::RawCapture(c)) => vec![c.memory_reference.name.clone()],
        ("call-after-immediate", Instruction::Call(c)) => c
            .arguments
            .iter()
            .filter_map(|a| match a {
                UnresolvedCallArgument::Identifier(i) => Some(i.clone()),
                UnresolvedCallArgument::MemoryReference(m) => Some(m.name.clone()),
                UnresolvedCallArgument::Immediate(_) => None,
            })
            .collect(),
        ("jump-when-condition", Instruction::JumpWhen(j)) => vec![j.condition.name.clone()],
        ("expression-bare" | "expression-indexed" | "expression-nested-bare", Instruction::Gate(g)) => g.parameters.iter().flat_map(ex).collect(),
        ("expression-frame", Instruction::SetPhase(s)) => ex(&s.phase),
        ("expression-delay", Instruction::Delay(d)) => ex(&d.duration),
        ("expression-waveform-parameter", Instruction::Pulse(p)) => ex(p.waveform.parameters.get("duration")?),
        ("label", Instruction::Label(l)) => vec![tname(&l.target)],
        ("jump", Instruction::Jump(j)) => vec![tname(&j.target)],
        ("jump-when", Instruction::JumpWhen(j)) => vec![tname(&j.target)],
        ("jump-unless", Instruction::JumpUnless(j)) => vec![tname(&j.target)],
        ("gate-application" | "gate-application-modified", Instruction::Gate(g)) => vec![g.name.clone()],
        ("defgate", Instruction::GateDefinition(g)) => vec![g.name.clone()],
        ("defgate-sequence-element", Instruction::GateDefinition(g)) => {
            // the sequence's gates are private: read them from the definition's debug form
            let dbg = format!("{:?}", g.specification);
            let name = dbg.split("name: \"").nth(1)?.split('"').next()?.to_string();
            vec![name]
        }
        ("defcal", Instruction::CalibrationDefinition(c)) => vec![c.identifier.name.clone()],
        ("defcircuit", Instruction::CircuitDefinition(c)) => vec![c.name.clone()],
        ("defgate-parameter", Instruction::GateDefinition(g)) => {
            let mut v = g.parameters.clone();
            if let GateSpecification::Matrix(m) = &g.specification {
                v.extend(m.first()?.first().map(ex)?);
            }
            v
        }
        ("defcal-parameter", Instruction::CalibrationDefinition(c)) => {
            let mut v: Vec<String> = c.identifier.parameters.iter().flat_map(ex).collect();
            if let Some(Instruction::Gate(g)) = c.instructions.first() {
                v.extend(g.parameters.iter().flat_map(ex));
            }
            v
        }
        ("defcircuit-parameter", Instruction::CircuitDefinition(c)) => {
            let mut v = c.parameters.clone();
            if let Some(Instruction::Gate(g)) = c.instructions.first() {
                v.extend(g.parameters.iter().flat_map(ex));
            }
            v
        }
        ("defcal-qubit-variable", Instruction::CalibrationDefinition(c)) => {
            let mut v: Vec<String> = c.identifier.qubits.iter().flat_map(qvar).collect();
            if let Some(Instruction::Gate(g)) = c.instructions.first() {
                v.extend(g.qubits.iter().flat_map(qvar));
            }
            v
        }
        ("defcircuit-qubit-variable", Instruction::CircuitDefinition(c)) => {
            let mut v = c.qubit_variables.clone();
            if let Some(Instruction::Gate(g)) = c.instructions.first() {
                v.extend(g.qubits.iter().flat_map(qvar));
            }
            v
        }
        ("defgate-sequence-qubit", Instruction::GateDefinition(g)) => {
            let dbg = format!("{:?}", g.specification);
            let q = dbg.split("qubits: [\"").nth(1)?.split('"').next()?.to_string();
            vec![q]
        }
        ("defcal-measure", Instruction::MeasureCalibrationDefinition(c)) => {
            let mut v = qvar(&c.identifier.qubit);
            v.push(c.identifier.target.clone()?);
            v
        }
        ("waveform-invocation" | "waveform-invocation-parameters", Instruction::Pulse(p)) => vec![p.waveform.name.clone()],
        ("defwaveform", Instruction::WaveformDefinition(w)) => vec![w.name.clone()],
        ("waveform-parameter-key", Instruction::Pulse(p)) => p.waveform.parameters.keys().cloned().collect(),
        ("frame-attribute-key", Instruction::FrameDefinition(f)) => f.attributes.keys().cloned().collect(),
        ("pragma-name", Instruction::Pragma(p)) => vec![p.name.clone()],
        ("pragma-argument", Instruction::Pragma(p)) => {
            p.arguments.iter().filter_map(|a| if let PragmaArgument::Identifier(i) = a { Some(i.clone()) } else { None }).collect()
        }
        ("call", Instruction::Call(c)) => {
            let mut v = vec![c.name.clone()];
            for a in &c.arguments {
                v.push(match a {
                    UnresolvedCallArgument::Identifier(i) => i.clone(),
                    UnresolvedCallArgument::MemoryReference(m) => m.name.clone(),
                    other => format!("<{other:?}>"),
                });
            }
            v
        }
        ("measure-name", Instruction::Measurement(m)) => vec![m.name.clone()?],
        (
            "qubit-variable-gate" | "qubit-variable-measure" | "qubit-variable-reset" | "qubit-variable-fence" | "qubit-variable-pulse"
            | "qubit-variable-set-phase" | "qubit-variable-delay" | "qubit-variable-delay-grouped" | "qubit-variable-delay-two"
            | "qubit-variable-delay-frames",
            i,
        ) => {
            let qs: Vec<Qubit> = match i {
                Instruction::SetPhase(s) => s.frame.qubits.clone(),
                other => other.get_qubits().into_iter().cloned().collect(),
            };
            qs.iter().filter_map(|q| if let Qubit::Variable(v) = q { Some(v.clone()) } else { None }).collect()
        }
        _ => return None,
    })
}

fn interesting(name: &str) -> bool {
    name.chars().any(|c| c.is_ascii_uppercase()) || name.contains('-')
}

fn oracle(pos_index: usize, name: &str, out: &mut Outcome) -> Check {
    let position = &POSITIONS[pos_index];
    out.class(if position.in_expression { "expression-position" } else { "plain-position" });
    out.nontrivial = interesting(name);
    if name.chars().any(|c| c.is_ascii_uppercase()) {
        out.class("has-uppercase");
    }
    if name.contains('-') {
        out.class("has-dash");
    }
    let text = position.template.replace("{}", name);
    let program = match lib(|| Program::from_str(&text))? {
        Ok(p) => p,
        Err(e) => {
            // not every identifier is legal in every position (the statement is about what reaches
            // the parsed program); a rejected text is counted, and kept rare by a floor
            out.class("rejected");
            let _ = e;
            return Ok(());
        }
    };
    let listing = lib(|| program.to_instructions())?;
    let found: Vec<Vec<String>> = listing.iter().filter_map(|i| extract(position.name, i)).collect();
    ensure!(
        found.len() == 1,
        format!("c06:position-lost:{}", position.name),
        "{text:?}: expected one instruction of the position's kind, found {}: {listing:?}",
        found.len()
    );
    let names = &found[0];
    ensure!(
        names.len() == position.expect,
        format!("c06:place-count:{}", position.name),
        "{text:?}: expected the name at {} places, found {names:?}",
        position.expect
    );
    for n in names {
        if n != name {
            let sig = if n.eq_ignore_ascii_case(name) { format!("c06:case-changed:{}", position.name) } else { format!("c06:name-changed:{}", position.name) };
            fail!(sig, "{text:?}: the identifier {name:?} reached the program as {n:?}");
        }
    }
    out.class("accepted");

    // consistency of memory-region spellings
    // (a name that is a case variant of pi / i / a function name means something else inside an
    // expression — the statement's exception — so it cannot take part in the consistency program)
    if !ident::is_expression_word(name) && (position.in_expression || matches!(position.name, "declare" | "move-destination" | "move-source" | "measure-target")) {
        let consistency = format!(
            "DECLARE {name} REAL[2]\nDECLARE other REAL[2]\nMOVE {name}[1] 0.5\nMOVE other {name}\nRX({name}) 0\nRX(2*{name}[1]) 1\nSET-PHASE 0 \"f\" {name}\nSHIFT-FREQUENCY 0 \"f\" sin({name})+{name}[1]\n"
        );
        let Ok(p) = lib(|| Program::from_str(&consistency))? else {
            out.class("consistency-rejected");
            return Ok(());
        };
        let mut regions: Vec<String> = vec![];
        for i in p.body_instructions() {
            match i {
                Instruction::Move(m) => {
                    regions.push(m.destination.name.clone());
                    if let ArithmeticOperand::MemoryReference(r) = &m.source {
                        regions.push(r.name.clone());
                    }
                }
                Instruction::Gate(g) => g.parameters.iter().for_each(|e| addresses(e, &mut regions)),
                Instruction::SetPhase(s) => addresses(&s.phase, &mut regions),
                Instruction::ShiftFrequency(s) => addresses(&s.frequency, &mut regions),
                _ => {}
            }
        }
        // also through the library's own listing of an expression's references
        for i in p.body_instructions() {
            if let Instruction::Gate(g) = i {
                for e in &g.parameters {
                    for r in e.memory_references() {
                        regions.push(r.name.clone());
                    }
                }
            }
        }
        for r in &regions {
            ensure!(
                r == name || r == "other",
                "c06:region-spelling-inconsistent",
                "in {consistency:?} the region written {name:?} everywhere shows up as {r:?} (all references: {regions:?})"
            );
        }
        ensure!(regions.iter().filter(|r| *r == name).count() >= 7, "c06:region-reference-lost", "expected >= 7 references to {name:?}, found {regions:?}");
        ensure!(p.memory_regions.contains_key(name), "c06:declared-region-renamed", "DECLARE {name} declares {:?}", p.memory_regions.keys().collect::<Vec<_>>());
        // type checking: same verdict as the all-lowercase spelling (which the expression parser
        // certainly leaves alone), unless lowercasing collides with the other region's name
        let lower = name.to_ascii_lowercase();
        if lower != "other" && !ident::is_reserved(&lower) && !ident::is_expression_word(&lower) {
            let lower_text = consistency.replace(name, &lower);
            if let Ok(pl) = lib(|| Program::from_str(&lower_text))? {
                let (a, b) = (lib(|| type_check(&p))?.is_ok(), lib(|| type_check(&pl))?.is_ok());
                ensure!(
                    a == b,
                    "c06:type-check-depends-on-case",
                    "type_check of {consistency:?} is ok={a}, of the same program spelled {lower:?} ok={b}"
                );
                ensure!(a, "c06:declared-region-not-found", "type_check rejects {consistency:?} although every region it uses is declared REAL");
                out.class("consistency-checked");
            }
        }
    }
    Ok(())
}

fn identifier(src: &mut Src, in_expression: bool) -> String {
    match src.below(6) {
        0 => src.pick(&["Theta", "RO", "a-b", "x_1", "Q-Ubit-9", "beta-2", "ALPHA", "mIxEd", "r", "e", "E1", "PI_", "I_", "Sin2", "cosX", "i0", "pi2", "j", "J", "x", "b", "o", "e1", "E", "x1F", "b1", "_1"]).to_string(),
        _ => {
            if in_expression {
                ident::ident_for_expression(src, 10)
            } else {
                ident::ident(src, 10)
            }
        }
    }
}

impl Property for C06Prop {
    fn id(&self) -> &'static str {
        "C06"
    }
    fn rule(&self) -> &'static str {
        "identifier x position: identifiers are a fixed list of mixed-case / dashed / near-reserved spellings (Theta, RO, a-b, Q-Ubit-9, PI_, Sin2, i0, and the letters a numeric literal can end in or contain: j, J, e, E, x, b, o, e1, x1F, ...) or random identifiers [A-Za-z_]([A-Za-z0-9_-]*[A-Za-z0-9_])? of length 1..10 that are not reserved tokens (and, in expression positions, not a case variant of pi / i / sin / cos / sqrt / exp / cis); 64 positions: DECLARE name, SHARING name, every classical operand, LOAD/STORE regions, MEASURE / CAPTURE / RAW-CAPTURE targets, jump conditions, bare and indexed names inside expressions (gate parameter, nested, frame update, DELAY, waveform parameter), LABEL / JUMP* targets, gate name (application, modified, DEFGATE, sequence element, DEFCAL, DEFCIRCUIT), %parameter names and qubit variables of each definition kind, DEFCAL MEASURE qubit and target, waveform names and parameter keys, frame attribute keys, PRAGMA name and arguments, CALL name and arguments, MEASURE!name, and qubit variables of body instructions (gate, MEASURE, RESET, FENCE, PULSE, SET-PHASE and four DELAY forms), and a name directly behind a numeric literal (CALL argument after an immediate, RAW-CAPTURE target after an integer duration). Non-trivial = the identifier has an uppercase letter or a dash; distinct by (position, identifier)."
    }
    fn max_words(&self) -> usize {
        40
    }
    fn cases(&self, tier: Tier) -> u64 {
        tier.pick(60_000, 1_000_000)
    }
    fn run(&self, src: &mut Src, ctx: &Ctx, out: &mut Outcome) -> Check {
        let position = src.below(POSITIONS.len());
        let name = identifier(src, POSITIONS[position].in_expression);
        out.set_key(&(position, &name));
        if ctx.render {
            out.render = Some(format!("{}: {:?}", POSITIONS[position].name, POSITIONS[position].template.replace("{}", &name)));
        }
        oracle(position, &name, out)
    }
    /// `<position name> <identifier>`
    fn run_text(&self, text: &str, _ctx: &Ctx, out: &mut Outcome) -> Check {
        let (pos, name) = text.trim().split_once(' ').unwrap_or((text, "a"));
        let Some(position) = POSITIONS.iter().position(|p| p.name == pos) else { fail!("harness:c06-text", "unknown position {pos:?}") };
        out.set_key(text);
        oracle(position, name, out)
    }
    fn floors(&self) -> Vec<(&'static str, f64)> {
        vec![("accepted", 0.85), ("has-uppercase", 0.4), ("has-dash", 0.05), ("expression-position", 0.08), ("consistency-checked", 0.05)]
    }
}
