//! C34 — Placeholder resolution assigns unique, consistent values.
//!
//! Statement: "Default resolution replaces every qubit and label placeholder in the body, giving
//! distinct placeholders distinct values and each placeholder the same value at every occurrence.
//! No resolved qubit equals a fixed qubit already used by the body, and no resolved label equals an
//! existing label or jump target. Custom resolvers replace exactly the placeholders they return
//! values for."
//!
//! The oracle walks the body before and after resolution position by position with its *own*
//! traversal of every qubit-bearing field (gate qubits, MEASURE, RESET, DELAY, FENCE, the frame of
//! PULSE / CAPTURE / RAW-CAPTURE / SET-* / SHIFT-* and both frames of SWAP-PHASES) and every target
//! (LABEL, JUMP, JUMP-WHEN, JUMP-UNLESS), so it does not inherit the library's notion of which
//! fields hold qubits.

use crate::engine::{lib, Check, Ctx, Outcome, Property, Src, Tier};
use crate::gen::rf;
use crate::{ensure, fail};
use quil_rs::instruction::{
    Delay, Fence, FrameIdentifier, Gate, Instruction, Jump, JumpUnless, JumpWhen, Label, Measurement, MemoryReference, Qubit,
    QubitPlaceholder, Reset, Target, TargetPlaceholder,
};
use quil_rs::quil::Quil;
use quil_rs::Program;
use std::collections::HashMap;

pub struct C34Prop;
pub static C34: C34Prop = C34Prop;

/// Every qubit position of a body instruction, in a fixed order.
fn qubits_mut(i: &mut Instruction) -> Vec<&mut Qubit> {
    match i {
        Instruction::Gate(g) => g.qubits.iter_mut().collect(),
        Instruction::Measurement(m) => vec![&mut m.qubit],
        Instruction::Reset(r) => r.qubit.iter_mut().collect(),
        Instruction::Delay(d) => d.qubits.iter_mut().collect(),
        Instruction::Fence(f) => f.qubits.iter_mut().collect(),
        Instruction::Pulse(p) => p.frame.qubits.iter_mut().collect(),
        Instruction::Capture(c) => c.frame.qubits.iter_mut().collect(),
        Instruction::RawCapture(c) => c.frame.qubits.iter_mut().collect(),
        Instruction::SetFrequency(s) => s.frame.qubits.iter_mut().collect(),
        Instruction::SetPhase(s) => s.frame.qubits.iter_mut().collect(),
        Instruction::SetScale(s) => s.frame.qubits.iter_mut().collect(),
        Instruction::ShiftFrequency(s) => s.frame.qubits.iter_mut().collect(),
        Instruction::ShiftPhase(s) => s.frame.qubits.iter_mut().collect(),
        Instruction::SwapPhases(s) => s.frame_1.qubits.iter_mut().chain(s.frame_2.qubits.iter_mut()).collect(),
        _ => vec![],
    }
}

fn target_mut(i: &mut Instruction) -> Option<&mut Target> {
    match i {
        Instruction::Label(l) => Some(&mut l.target),
        Instruction::Jump(j) => Some(&mut j.target),
        Instruction::JumpWhen(j) => Some(&mut j.target),
        Instruction::JumpUnless(j) => Some(&mut j.target),
        _ => None,
    }
}

fn qubits_of(i: &Instruction) -> Vec<Qubit> {
    let mut c = i.clone();
    qubits_mut(&mut c).into_iter().map(|q| q.clone()).collect()
}

fn target_of(i: &Instruction) -> Option<Target> {
    let mut c = i.clone();
    target_mut(&mut c).cloned()
}

struct Pools {
    qph: Vec<QubitPlaceholder>,
    tph: Vec<TargetPlaceholder>,
}

fn qubit(src: &mut Src, p: &Pools) -> Qubit {
    match src.weighted(&[4, 5, 1]) {
        0 => Qubit::Fixed(src.below(4) as u64),
        1 => Qubit::Placeholder(src.pick(&p.qph).clone()),
        _ => Qubit::Variable(src.pick(&["q", "r"]).to_string()),
    }
}

fn target(src: &mut Src, p: &Pools) -> Target {
    if src.chance(1, 2) {
        Target::Placeholder(src.pick(&p.tph).clone())
    } else {
        // fixed names that collide with the default suffix scheme
        Target::Fixed(src.pick(&["L_0", "L_1", "a_0", "L", "end", "L_2"]).to_string())
    }
}

fn frame(src: &mut Src, p: &Pools) -> FrameIdentifier {
    let n = 1 + src.below(2);
    FrameIdentifier { name: src.pick(&["a", "b"]).to_string(), qubits: (0..n).map(|_| qubit(src, p)).collect() }
}

fn instruction(src: &mut Src, p: &Pools) -> Instruction {
    let ro = MemoryReference { name: "ro".into(), index: 0 };
    match src.weighted(&[2, 2, 2, 2, 2, 2, 2, 2, 2, 2, 2, 2, 2, 2, 2, 2, 6, 6, 6]) {
        0 | 1 => Instruction::Gate(Gate::new("X", vec![], vec![qubit(src, p)], vec![]).unwrap()),
        2 => Instruction::Gate(Gate::new("CNOT", vec![], vec![qubit(src, p), qubit(src, p)], vec![]).unwrap()),
        3 => Instruction::Measurement(Measurement { name: None, qubit: qubit(src, p), target: if src.chance(1, 2) { Some(ro) } else { None } }),
        4 => Instruction::Reset(Reset { qubit: if src.chance(3, 4) { Some(qubit(src, p)) } else { None } }),
        5 => Instruction::Delay(Delay {
            duration: rf::real(1.0),
            frame_names: if src.chance(1, 2) { vec!["a".into()] } else { vec![] },
            qubits: (0..1 + src.below(2)).map(|_| qubit(src, p)).collect(),
        }),
        6 => Instruction::Fence(Fence { qubits: (0..src.below(3)).map(|_| qubit(src, p)).collect() }),
        7 => rf::pulse(src.chance(1, 2), &frame(src, p), rf::flat(1.0)),
        8 => rf::capture(true, &frame(src, p), rf::flat(1.0), ro),
        9 => rf::raw_capture(true, &frame(src, p), rf::real(1.0), ro),
        10 => rf::set_frequency(&frame(src, p), rf::real(1.0)),
        11 => rf::set_phase(&frame(src, p), rf::real(1.0)),
        12 => rf::set_scale(&frame(src, p), rf::real(1.0)),
        13 => rf::shift_frequency(&frame(src, p), rf::real(1.0)),
        14 => rf::shift_phase(&frame(src, p), rf::real(1.0)),
        15 => rf::swap_phases(&frame(src, p), &frame(src, p)),
        16 => Instruction::Label(Label { target: target(src, p) }),
        17 => Instruction::Jump(Jump { target: target(src, p) }),
        _ => {
            if src.chance(1, 2) {
                Instruction::JumpWhen(JumpWhen { target: target(src, p), condition: ro })
            } else {
                Instruction::JumpUnless(JumpUnless { target: target(src, p), condition: ro })
            }
        }
    }
}

fn show(body: &[Instruction], p: &Pools) -> String {
    // stable names for placeholders (their Debug form is an address)
    let mut s = body.iter().map(|i| i.to_quil_or_debug()).collect::<Vec<_>>().join("; ");
    for (k, q) in p.qph.iter().enumerate() {
        s = s.replace(&format!("{q:?}"), &format!("<Q{k}>"));
    }
    for (k, t) in p.tph.iter().enumerate() {
        s = s.replace(&format!("{t:?}"), &format!("<T{k}:{}>", t.as_inner()));
    }
    s
}

fn kind_of(i: &Instruction) -> &'static str {
    match i {
        Instruction::SetFrequency(_) | Instruction::SetPhase(_) | Instruction::SetScale(_) | Instruction::ShiftFrequency(_) | Instruction::ShiftPhase(_) => {
            "SET/SHIFT frame"
        }
        Instruction::SwapPhases(_) => "SWAP-PHASES frame",
        Instruction::Pulse(_) | Instruction::Capture(_) | Instruction::RawCapture(_) => "PULSE/CAPTURE frame",
        Instruction::Gate(_) => "gate",
        Instruction::Measurement(_) => "MEASURE",
        Instruction::Reset(_) => "RESET",
        Instruction::Delay(_) => "DELAY",
        Instruction::Fence(_) => "FENCE",
        _ => "other",
    }
}

fn default_resolution(body: &[Instruction], p: &Pools, out: &mut Outcome) -> Check {
    let mut program = lib(|| Program::from_instructions(body.to_vec()))?;
    lib(|| program.resolve_placeholders())?;
    let after: Vec<Instruction> = program.body_instructions().cloned().collect();
    ensure!(after.len() == body.len(), "c34:body-length", "resolution changed the number of body instructions");

    let fixed_qubits: Vec<u64> = body.iter().flat_map(qubits_of).filter_map(|q| if let Qubit::Fixed(n) = q { Some(n) } else { None }).collect();
    let fixed_labels: Vec<String> = body.iter().filter_map(target_of).filter_map(|t| if let Target::Fixed(s) = t { Some(s) } else { None }).collect();
    let mut qmap: HashMap<QubitPlaceholder, u64> = HashMap::new();
    let mut tmap: HashMap<TargetPlaceholder, String> = HashMap::new();

    for (k, (before, post)) in body.iter().zip(after.iter()).enumerate() {
        let (qb, qa) = (qubits_of(before), qubits_of(post));
        ensure!(qb.len() == qa.len(), "c34:shape-changed", "instruction {k} changed shape: {} -> {}", before.to_quil_or_debug(), post.to_quil_or_debug());
        for (b, a) in qb.iter().zip(qa.iter()) {
            match (b, a) {
                (Qubit::Placeholder(ph), Qubit::Fixed(n)) => {
                    if let Some(prev) = qmap.get(ph) {
                        ensure!(prev == n, "c34:qubit-inconsistent", "one qubit placeholder resolved to {prev} and to {n}; body: {}", show(body, p));
                    }
                    qmap.insert(ph.clone(), *n);
                }
                (Qubit::Placeholder(_), other) => fail!(
                    format!("c34:qubit-placeholder-left:{}", kind_of(before)),
                    "qubit placeholder in instruction {k} ({}) is still {} after resolve_placeholders(); body: {}",
                    kind_of(before),
                    other.to_quil_or_debug(),
                    show(body, p)
                ),
                (b, a) => ensure!(b == a, "c34:non-placeholder-qubit-changed", "instruction {k}: qubit {} became {}", b.to_quil_or_debug(), a.to_quil_or_debug()),
            }
        }
        match (target_of(before), target_of(post)) {
            (Some(Target::Placeholder(ph)), Some(Target::Fixed(s))) => {
                if let Some(prev) = tmap.get(&ph) {
                    ensure!(*prev == s, "c34:label-inconsistent", "one label placeholder resolved to {prev} and to {s}; body: {}", show(body, p));
                }
                tmap.insert(ph, s);
            }
            (Some(Target::Placeholder(_)), other) => {
                fail!("c34:label-placeholder-left", "label placeholder in instruction {k} is still {other:?} after resolve_placeholders(); body: {}", show(body, p))
            }
            (b, a) => ensure!(b == a, "c34:fixed-label-changed", "instruction {k}: target {b:?} became {a:?}"),
        }
        // nothing else changed: substituting the observed values into the original gives the result
        let mut expect = before.clone();
        for q in qubits_mut(&mut expect) {
            if let Qubit::Placeholder(ph) = q {
                if let Some(n) = qmap.get(ph) {
                    *q = Qubit::Fixed(*n);
                }
            }
        }
        if let Some(t) = target_mut(&mut expect) {
            if let Target::Placeholder(ph) = t {
                if let Some(s) = tmap.get(ph) {
                    *t = Target::Fixed(s.clone());
                }
            }
        }
        ensure!(expect == *post, "c34:other-field-changed", "instruction {k} changed beyond its placeholders: {} -> {}", before.to_quil_or_debug(), post.to_quil_or_debug());
    }
    // distinct placeholders, distinct values
    let mut qvals: Vec<u64> = qmap.values().copied().collect();
    qvals.sort();
    ensure!(qvals.windows(2).all(|w| w[0] != w[1]), "c34:qubit-not-injective", "two qubit placeholders share a value: {qmap:?}; body: {}", show(body, p));
    let mut tvals: Vec<&String> = tmap.values().collect();
    tvals.sort();
    ensure!(tvals.windows(2).all(|w| w[0] != w[1]), "c34:label-not-injective", "two label placeholders share a value: {:?}; body: {}", tmap.values().collect::<Vec<_>>(), show(body, p));
    // no collision with what the body already uses
    for (ph, n) in &qmap {
        if fixed_qubits.contains(n) {
            let holders: Vec<&'static str> = body.iter().filter(|i| qubits_of(i).contains(&Qubit::Fixed(*n))).map(kind_of).collect();
            let only_in = if holders.iter().all(|h| h.contains("SET/SHIFT") || h.contains("SWAP")) { ":fixed-qubit-only-in-SET/SHIFT/SWAP-frame" } else { "" };
            let _ = ph;
            fail!(
                format!("c34:qubit-collides-with-fixed{only_in}"),
                "a placeholder resolved to qubit {n}, which the body already uses as a fixed qubit (in {holders:?}); body: {}",
                show(body, p)
            );
        }
    }
    for s in tmap.values() {
        ensure!(!fixed_labels.contains(s), "c34:label-collides-with-fixed", "a label placeholder resolved to {s}, an existing label or jump target; body: {}", show(body, p));
    }
    if qmap.len() >= 2 {
        out.class("qubit-placeholders>=2");
    }
    if tmap.len() >= 2 {
        out.class("label-placeholders>=2");
    }
    Ok(())
}

fn custom_resolution(body: &[Instruction], p: &Pools, qmask: usize, tmask: usize) -> Check {
    let qmap: HashMap<QubitPlaceholder, u64> = p.qph.iter().enumerate().filter(|(k, _)| qmask >> k & 1 == 1).map(|(k, q)| (q.clone(), 100 + k as u64)).collect();
    let tmap: HashMap<TargetPlaceholder, String> =
        p.tph.iter().enumerate().filter(|(k, _)| tmask >> k & 1 == 1).map(|(k, t)| (t.clone(), format!("custom_{k}"))).collect();
    let (q2, t2) = (qmap.clone(), tmap.clone());
    let mut program = lib(|| Program::from_instructions(body.to_vec()))?;
    lib(|| program.resolve_placeholders_with_custom_resolvers(Box::new(move |t| t2.get(t).cloned()), Box::new(move |q| q2.get(q).copied())))?;
    let after: Vec<Instruction> = program.body_instructions().cloned().collect();
    ensure!(after.len() == body.len(), "c34:body-length", "custom resolution changed the number of body instructions");
    for (k, (before, post)) in body.iter().zip(after.iter()).enumerate() {
        let mut expect = before.clone();
        for q in qubits_mut(&mut expect) {
            if let Qubit::Placeholder(ph) = q {
                if let Some(n) = qmap.get(ph) {
                    *q = Qubit::Fixed(*n);
                }
            }
        }
        if let Some(t) = target_mut(&mut expect) {
            if let Target::Placeholder(ph) = t {
                if let Some(s) = tmap.get(ph) {
                    *t = Target::Fixed(s.clone());
                }
            }
        }
        if expect != *post {
            let sig = if qubits_of(&expect) != qubits_of(post) { format!("c34:custom:qubits:{}", kind_of(before)) } else { "c34:custom:targets".to_string() };
            fail!(
                sig,
                "custom resolvers (qubit mask {qmask:b}, label mask {tmask:b}): instruction {k} should become {} but is {}; body: {}",
                expect.to_quil_or_debug(),
                post.to_quil_or_debug(),
                show(body, p)
            );
        }
    }
    Ok(())
}

impl Property for C34Prop {
    fn id(&self) -> &'static str {
        "C34"
    }
    fn rule(&self) -> &'static str {
        "random bodies of <= 10 (quick) / <= 16 (thorough) instructions over every qubit-bearing body instruction (gates, MEASURE, RESET, DELAY, FENCE, PULSE, CAPTURE, RAW-CAPTURE, SET-FREQUENCY/PHASE/SCALE, SHIFT-FREQUENCY/PHASE, SWAP-PHASES; 1-2 qubit frames) and LABEL/JUMP/JUMP-WHEN/JUMP-UNLESS, each qubit slot fixed 0..3 (40%), one of 4 placeholders (50%) or a variable (10%), each target one of 3 placeholders (two share the base label L) or a fixed name from {L_0, L_1, L_2, a_0, L, end} (colliding with the default suffix scheme); default resolution, then custom resolvers for a random subset of the placeholders. Non-trivial = >= 2 placeholders of one kind and a fixed value of that kind in the body; distinct by body hash."
    }
    fn max_words(&self) -> usize {
        2 * (16 * 12 + 6)
    }
    fn cases(&self, tier: Tier) -> u64 {
        tier.pick(60_000, 1_500_000)
    }
    fn run(&self, src: &mut Src, ctx: &Ctx, out: &mut Outcome) -> Check {
        let p = Pools {
            qph: (0..4).map(|_| QubitPlaceholder::default()).collect(),
            tph: vec![TargetPlaceholder::new("L".into()), TargetPlaceholder::new("L".into()), TargetPlaceholder::new("a".into())],
        };
        let (qmask, tmask) = (src.below(16), src.below(8));
        let n = src.below(ctx.tier.pick(10, 16) + 1);
        let body: Vec<Instruction> = (0..n).map(|_| instruction(src, &p)).collect();
        let rendering = show(&body, &p);
        out.set_key(&(rendering.clone(), qmask, tmask));
        if ctx.render {
            out.render = Some(format!("{rendering}   [custom masks q={qmask:b} t={tmask:b}]"));
        }
        let nq = p.qph.iter().filter(|ph| body.iter().any(|i| qubits_of(i).contains(&Qubit::Placeholder((*ph).clone())))).count();
        let nt = p.tph.iter().filter(|ph| body.iter().any(|i| target_of(i) == Some(Target::Placeholder((*ph).clone())))).count();
        let has_fixed_q = body.iter().any(|i| qubits_of(i).iter().any(|q| matches!(q, Qubit::Fixed(_))));
        let has_fixed_t = body.iter().any(|i| matches!(target_of(i), Some(Target::Fixed(_))));
        out.nontrivial = (nq >= 2 && has_fixed_q) || (nt >= 2 && has_fixed_t);
        if body.iter().any(|i| kind_of(i).contains("SET/SHIFT") || kind_of(i).contains("SWAP")) {
            out.class("has-SET/SHIFT/SWAP");
        }
        let r = default_resolution(&body, &p, out);
        ctx.tolerate(out, r)?;
        let r = custom_resolution(&body, &p, qmask, tmask);
        ctx.tolerate(out, r)
    }
    /// One instruction per line; `900`..`903` stand for the four qubit placeholders and the labels
    /// `@PH0`..`@PH2` for the three label placeholders (bases L, L, a).
    fn run_text(&self, text: &str, ctx: &Ctx, out: &mut Outcome) -> Check {
        use std::str::FromStr;
        let p = Pools {
            qph: (0..4).map(|_| QubitPlaceholder::default()).collect(),
            tph: vec![TargetPlaceholder::new("L".into()), TargetPlaceholder::new("L".into()), TargetPlaceholder::new("a".into())],
        };
        let mut body = vec![];
        for line in text.lines().filter(|l| !l.trim().is_empty()) {
            let mut i = match Instruction::from_str(line) {
                Ok(i) => i,
                Err(e) => fail!("harness:c34-text", "{line:?}: {e}"),
            };
            for q in qubits_mut(&mut i) {
                if let Qubit::Fixed(n) = q {
                    if (900..904).contains(n) {
                        *q = Qubit::Placeholder(p.qph[(*n - 900) as usize].clone());
                    }
                }
            }
            if let Some(t) = target_mut(&mut i) {
                if let Target::Fixed(s) = t {
                    if let Some(k) = s.strip_prefix("PH").and_then(|k| k.parse::<usize>().ok()) {
                        *t = Target::Placeholder(p.tph[k.min(2)].clone());
                    }
                }
            }
            body.push(i);
        }
        out.set_key(&show(&body, &p));
        let r = default_resolution(&body, &p, out);
        ctx.tolerate(out, r)?;
        for (qmask, tmask) in [(0, 0), (0b0101, 0b010), (0b1111, 0b111)] {
            custom_resolution(&body, &p, qmask, tmask)?;
        }
        Ok(())
    }
    fn floors(&self) -> Vec<(&'static str, f64)> {
        vec![("qubit-placeholders>=2", 0.3), ("label-placeholders>=2", 0.1), ("has-SET/SHIFT/SWAP", 0.3)]
    }
}
