//! C30 — Type checking is per-instruction and follows the typing rules.
//!
//! Statement: "A program type-checks iff each of its body instructions type-checks against the
//! program's declarations on its own. Every expression argument of SET-*/SHIFT-* must be
//! real-valued at any nesting depth: declared REAL memory, real numbers or pi, combined by
//! operators and functions, with no variables. The verdict does not change under consistent
//! renaming of memory regions or under reordering or duplicating instructions."
//!
//! Oracles:
//!  (1) decomposition: `ok(P) ⇔ ∀ i. ok(declarations + [instr_i])`;
//!  (2) reference rule for SET-FREQUENCY/PHASE/SCALE and SHIFT-FREQUENCY/PHASE: ok iff every
//!      address in the expression (at any depth) names a region declared REAL, every number is
//!      real, and no variable occurs;
//!  (3) the same choices decoded under a second, permuted region naming give the same verdict
//!      (for the whole program and for every single instruction);
//!  (4) a random permutation of the body and the body with one instruction duplicated give the
//!      same verdict;
//!  (5) the verdict of an instruction does not depend on the declared *lengths* of the regions
//!      (each region is lengthened by a different amount, so relative lengths change too).

use crate::engine::{lib, Check, Ctx, Outcome, Property, Src, Tier};
use crate::gen::{classical, rf};
use crate::{ensure, fail};
use num_complex::Complex64;
use crate::gen::expr as gx;
use quil_rs::expression::{Expression, ExpressionFunction, PrefixOperator};
use quil_rs::instruction::{Declaration, Instruction, MemoryReference, ScalarType, Vector};
use quil_rs::program::type_check::type_check;
use quil_rs::quil::Quil;
use quil_rs::Program;

pub struct C30Prop;
pub static C30: C30Prop = C30Prop;

const TYPES: [ScalarType; 7] =
    [ScalarType::Real, ScalarType::Real, ScalarType::Real, ScalarType::Integer, ScalarType::Integer, ScalarType::Bit, ScalarType::Octet];

fn expr(src: &mut Src, names: &[&str; 4], depth: usize) -> Expression {
    let leaf = depth == 0 || src.chance(1, 3);
    if leaf {
        return match src.weighted(&[5, 3, 1, 1, 1]) {
            0 => Expression::Address(MemoryReference { name: src.pick(names).to_string(), index: src.below(3) as u64 }),
            1 => rf::real(src.range(-4, 4) as f64 / 2.0),
            2 => Expression::PiConstant(),
            3 => Expression::Number(Complex64::new(src.range(-2, 2) as f64, 0.5 + src.below(3) as f64)),
            _ => Expression::Variable(src.pick(&["x", "theta"]).to_string()),
        };
    }
    match src.below(3) {
        0 => {
            let l = expr(src, names, depth - 1);
            let op = *src.pick(&gx::INFIX);
            let r = expr(src, names, depth - 1);
            gx::infix(l, op, r)
        }
        1 => {
            let op = if src.chance(1, 2) { PrefixOperator::Minus } else { PrefixOperator::Plus };
            gx::prefix(op, expr(src, names, depth - 1))
        }
        _ => {
            let f = *src.pick(&[
                ExpressionFunction::Cis,
                ExpressionFunction::Cosine,
                ExpressionFunction::Exponent,
                ExpressionFunction::Sine,
                ExpressionFunction::SquareRoot,
            ]);
            gx::call(f, expr(src, names, depth - 1))
        }
    }
}

fn instruction(src: &mut Src, names: &[&str; 4], tier: Tier) -> Instruction {
    if src.chance(1, 2) {
        let f = rf::frame(&[0], "f");
        let e = expr(src, names, tier.pick(3, 4));
        match src.below(5) {
            0 => rf::set_frequency(&f, e),
            1 => rf::set_phase(&f, e),
            2 => rf::set_scale(&f, e),
            3 => rf::shift_frequency(&f, e),
            _ => rf::shift_phase(&f, e),
        }
    } else {
        let k = src.below(classical::NUM_KINDS);
        classical::classical(src, k, names)
    }
}

struct Decoded {
    decls: Vec<Instruction>,
    body: Vec<Instruction>,
    types: Vec<Option<ScalarType>>,
}

/// Decode declarations + body under the given region names. `names[k]` gets type `types[k]`.
fn decode(src: &mut Src, names: &[&str; 4], tier: Tier, length_bump: u64) -> Decoded {
    let types: Vec<Option<ScalarType>> = (0..4).map(|_| if src.chance(1, 6) { None } else { Some(*src.pick(&TYPES)) }).collect();
    let lengths: Vec<u64> = (0..4).map(|_| 1 + src.below(3) as u64).collect();
    let decls = (0..4)
        .filter_map(|k| {
            types[k].map(|t| Instruction::Declaration(Declaration { name: names[k].to_string(), size: Vector { data_type: t, length: lengths[k] + length_bump * [1, 2, 4, 7][k] }, sharing: None }))
        })
        .collect();
    let n = 1 + src.below(tier.pick(6, 10));
    let body = (0..n).map(|_| instruction(src, names, tier)).collect();
    Decoded { decls, body, types }
}

fn verdict(decls: &[Instruction], body: &[Instruction]) -> Result<bool, crate::engine::Failure> {
    let p = Program::from_instructions(decls.iter().chain(body.iter()).cloned().collect());
    Ok(lib(|| type_check(&p))?.is_ok())
}

/// Reference rule (2).
fn model_real(e: &Expression, names: &[&str; 4], types: &[Option<ScalarType>]) -> bool {
    match e {
        Expression::Address(r) => names.iter().position(|n| *n == r.name).map(|k| types[k] == Some(ScalarType::Real)).unwrap_or(false),
        Expression::Number(c) => c.im == 0.0,
        Expression::PiConstant() => true,
        Expression::Variable(_) => false,
        Expression::FunctionCall(f) => model_real(&f.expression, names, types),
        Expression::Prefix(p) => model_real(&p.expression, names, types),
        Expression::Infix(i) => model_real(&i.left, names, types) && model_real(&i.right, names, types),
    }
}

fn frame_expression(i: &Instruction) -> Option<&Expression> {
    match i {
        Instruction::SetFrequency(s) => Some(&s.frequency),
        Instruction::SetPhase(s) => Some(&s.phase),
        Instruction::SetScale(s) => Some(&s.scale),
        Instruction::ShiftFrequency(s) => Some(&s.frequency),
        Instruction::ShiftPhase(s) => Some(&s.phase),
        _ => None,
    }
}

fn depth(e: &Expression) -> usize {
    match e {
        Expression::FunctionCall(f) => 1 + depth(&f.expression),
        Expression::Prefix(p) => 1 + depth(&p.expression),
        Expression::Infix(i) => 1 + depth(&i.left).max(depth(&i.right)),
        _ => 0,
    }
}

fn show(d: &Decoded) -> String {
    d.decls.iter().chain(d.body.iter()).map(|i| i.to_quil_or_debug()).collect::<Vec<_>>().join("; ")
}

impl Property for C30Prop {
    fn id(&self) -> &'static str {
        "C30"
    }
    fn rule(&self) -> &'static str {
        "random programs: regions a..d each undeclared (1/6) or declared REAL/INTEGER/BIT/OCTET with length 1..3; body of 1..6 (quick) / 1..10 (thorough) instructions, half SET-FREQUENCY/PHASE/SCALE, SHIFT-FREQUENCY/PHASE with expressions of depth <= 3/4 over addresses of the four regions, real and complex numbers, pi, variables, the 5 functions, prefix +/-, the 5 infix operators; half classical instructions (MOVE, ADD/SUB/MUL/DIV, AND/IOR/XOR/SHL/SHR/ASHR, NEG/NOT, EXCHANGE, CONVERT, comparisons, LOAD, STORE) with every operand form. The same choices are decoded a second time under permuted region names and a third time with longer regions. Non-trivial = >= 2 body instructions with different single-instruction verdicts, or a frame expression of depth >= 2; distinct by program text."
    }
    fn max_words(&self) -> usize {
        2 * (12 + 10 * 40)
    }
    fn cases(&self, tier: Tier) -> u64 {
        tier.pick(40_000, 800_000)
    }
    fn run(&self, src: &mut Src, ctx: &Ctx, out: &mut Outcome) -> Check {
        // permutation / duplication choices first
        let perm_seed = src.word();
        let dup_at = src.word();
        let renaming = *src.pick(&[["d", "c", "b", "a"], ["b", "a", "d", "c"], ["c", "d", "a", "b"], ["x", "y", "z", "w"], ["b", "c", "d", "a"]]);
        let names = ["a", "b", "c", "d"];
        let (mut s1, mut s2, mut s3) = (src.fork(), src.fork(), src.fork());
        let d = decode(&mut s1, &names, ctx.tier, 0);
        let renamed = decode(&mut s2, &renaming, ctx.tier, 0);
        let longer = decode(&mut s3, &names, ctx.tier, 1);
        src.advance_to(s1.used());
        let text = show(&d);
        out.set_key(&text);
        if ctx.render {
            out.render = Some(text.clone());
        }

        // (1)
        let whole = verdict(&d.decls, &d.body)?;
        let singles: Vec<bool> = d.body.iter().map(|i| verdict(&d.decls, std::slice::from_ref(i))).collect::<Result<_, _>>()?;
        let all = singles.iter().all(|b| *b);
        if whole != all {
            let sig = if whole { "c30:accepts-program-with-ill-typed-instruction" } else { "c30:rejects-program-of-well-typed-instructions" };
            fail!(sig, "type_check(program) ok = {whole}, but single-instruction verdicts are {singles:?}; program: {text}");
        }
        // (2)
        let mut deep = false;
        for (k, i) in d.body.iter().enumerate() {
            if let Some(e) = frame_expression(i) {
                deep |= depth(e) >= 2;
                let want = model_real(e, &names, &d.types);
                if singles[k] != want {
                    let sig = if singles[k] { "c30:real-rule:accepts-non-real" } else { "c30:real-rule:rejects-real" };
                    fail!(sig, "{} type-checks = {} but the real-valued rule says {want}; declarations: {:?}", i.to_quil_or_debug(), singles[k], d.decls.iter().map(|x| x.to_quil_or_debug()).collect::<Vec<_>>());
                }
                out.class(if want { "frame-expression-real" } else { "frame-expression-not-real" });
            }
        }
        // (3)
        let whole_r = verdict(&renamed.decls, &renamed.body)?;
        ensure!(whole_r == whole, "c30:renaming", "verdict {whole} became {whole_r} after renaming regions to {renaming:?}; program: {text}; renamed: {}", show(&renamed));
        for (k, i) in renamed.body.iter().enumerate() {
            let v = verdict(&renamed.decls, std::slice::from_ref(i))?;
            ensure!(v == singles[k], "c30:renaming:instruction", "{} has verdict {} but its renamed form {} has {v}", d.body[k].to_quil_or_debug(), singles[k], i.to_quil_or_debug());
        }
        // (4)
        let mut permuted = d.body.clone();
        let mut x = perm_seed as u64 | 1;
        for k in (1..permuted.len()).rev() {
            x = x.wrapping_mul(6364136223846793005).wrapping_add(1442695040888963407);
            permuted.swap(k, (x >> 33) as usize % (k + 1));
        }
        ensure!(verdict(&d.decls, &permuted)? == whole, "c30:reordering", "verdict changes when the body is reordered; program: {text}");
        let mut duplicated = d.body.clone();
        let at = dup_at as usize % d.body.len();
        duplicated.insert(at, d.body[at].clone());
        ensure!(verdict(&d.decls, &duplicated)? == whole, "c30:duplication", "verdict changes when instruction {at} is duplicated; program: {text}");
        // declarations placed after the body (a program holds declarations separately from the body)
        let late = Program::from_instructions(d.body.iter().chain(d.decls.iter()).cloned().collect());
        ensure!(lib(|| type_check(&late))?.is_ok() == whole, "c30:declaration-position", "verdict depends on where the DECLAREs are written; program: {text}");
        // (5)
        for (k, i) in longer.body.iter().enumerate() {
            let v = verdict(&longer.decls, std::slice::from_ref(i))?;
            ensure!(v == singles[k], "c30:length-dependence", "{} has verdict {} but {v} when the regions are 1, 2, 4 and 7 cells longer", i.to_quil_or_debug(), singles[k]);
        }

        let mixed = singles.iter().any(|b| *b) && singles.iter().any(|b| !*b);
        out.nontrivial = (d.body.len() >= 2 && mixed) || deep;
        if mixed {
            out.class("mixed-verdicts");
        }
        out.class(if whole { "program-ok" } else { "program-rejected" });
        Ok(())
    }
    fn floors(&self) -> Vec<(&'static str, f64)> {
        vec![("mixed-verdicts", 0.2), ("program-ok", 0.03), ("frame-expression-real", 0.1), ("frame-expression-not-real", 0.3)]
    }
}
