//! C18 — Calibration expansion always terminates without crashing.
//!
//! Statement: "For every program, expanding calibrations returns either the expanded program or a
//! recursive-calibration error, and never overflows the stack or runs forever. It reports that
//! error iff some instruction would be expanded again while it is already being expanded."
//!
//! Oracle: the model expander classifies each program: (a) finite without a repeat → the library
//! must return Ok with the model's body; (b) an instruction reappears on its own expansion path →
//! the library must return Err(RecursiveCalibration); (c) no repeat within a depth of 120 nested
//! expansions (parameters grow on every step, so no finite expansion exists) → the library must
//! *return* (any Result). The search runs in a child process with an 8 MiB stack; a crash or a hang
//! of the child is the violation for class (c).

use super::c17::{build, model_expand, texts};
use crate::engine::{lib, Case, Check, Ctx, Failure, Outcome, Property, Src, Tier};
use crate::gen::calprog::{self, CalOpts};
use crate::gen::expr as gx;
use crate::model::cal::ExpandError;
use crate::{ensure, fail};
use quil_rs::expression::{Expression, InfixOperator};
use quil_rs::instruction::{CalibrationDefinition, CalibrationIdentifier, Gate, Instruction, Qubit};
use quil_rs::program::ProgramError;

pub struct C18Prop;
pub static C18: C18Prop = C18Prop;

/// Hand-shaped growth recursion, so that class (c) does not depend on the random generator.
fn growth_program(src: &mut Src) -> (Vec<Instruction>, Vec<Instruction>) {
    let t = || Expression::Variable("t".into());
    let grown = match src.below(4) {
        0 => gx::infix(t(), InfixOperator::Plus, gx::num(1.0, 0.0)),
        1 => gx::infix(gx::num(2.0, 0.0), InfixOperator::Star, t()),
        2 => gx::call(quil_rs::expression::ExpressionFunction::Sine, t()),
        // doubles the (nominal) size of the parameter at every level
        _ => gx::infix(t(), InfixOperator::Star, t()),
    };
    let via_second = src.chance(1, 2);
    let q = Qubit::Variable("q".into());
    let gate = |name: &str, p: Expression, q: Qubit| Instruction::Gate(Gate { name: name.into(), parameters: vec![p], qubits: vec![q], modifiers: vec![] });
    let mut defs = vec![];
    if via_second {
        defs.push(Instruction::CalibrationDefinition(CalibrationDefinition {
            identifier: CalibrationIdentifier::new("RX".into(), vec![], vec![t()], vec![q.clone()]).unwrap(),
            instructions: vec![gate("RY", t(), q.clone())],
        }));
        defs.push(Instruction::CalibrationDefinition(CalibrationDefinition {
            identifier: CalibrationIdentifier::new("RY".into(), vec![], vec![t()], vec![q.clone()]).unwrap(),
            instructions: vec![gate("RX", grown, q.clone())],
        }));
    } else {
        defs.push(Instruction::CalibrationDefinition(CalibrationDefinition {
            identifier: CalibrationIdentifier::new("RX".into(), vec![], vec![t()], vec![q.clone()]).unwrap(),
            instructions: vec![gate("RX", grown, q.clone())],
        }));
    }
    // the argument is a constant (the library folds the grown parameter at every level) or a memory
    // reference (nothing can be folded: the parameter really grows)
    let argument = match src.below(5) {
        n @ 0..=2 => gx::num(n as f64, 0.0),
        _ => {
            defs.insert(
                0,
                Instruction::Declaration(quil_rs::instruction::Declaration::new(
                    "th".into(),
                    quil_rs::instruction::Vector::new(quil_rs::instruction::ScalarType::Real, 1),
                    None,
                )),
            );
            Expression::Address(quil_rs::instruction::MemoryReference::new("th".into(), 0))
        }
    };
    let body = vec![gate("RX", argument, Qubit::Fixed(0))];
    (defs, body)
}

impl Property for C18Prop {
    fn id(&self) -> &'static str {
        "C18"
    }
    fn rule(&self) -> &'static str {
        "the C17 program generator with growth enabled (calibration bodies may invoke RX(%t+1), RX(%t*2), RX(%t*%t), ...), plus hand-shaped self- and mutually-recursive growth programs (1 case in 8). Each program is classified by the model expander as finite / recursive / unbounded and the library's result is compared accordingly, inside a child process. Non-trivial = the model classifies the program as recursive or unbounded; distinct by program text."
    }
    fn max_words(&self) -> usize {
        700
    }
    fn cases(&self, tier: Tier) -> u64 {
        tier.pick(40_000, 800_000)
    }
    fn watchdog_s(&self) -> u64 {
        // the deepest legal expansion (256 nested levels, quadratic bookkeeping) takes a few seconds
        // on an idle machine; leave room for a loaded one
        60
    }
    fn run(&self, src: &mut Src, ctx: &Ctx, out: &mut Outcome) -> Check {
        let (defs, body) = if src.chance(1, 8) {
            growth_program(src)
        } else {
            let opts = CalOpts { growth: true, max_cals: ctx.tier.pick(4, 6), max_body: 3 };
            let g = calprog::generate(src, &opts, 3);
            (g.definitions, g.body)
        };
        check(defs, body, ctx, out)
    }
    fn run_text(&self, text: &str, ctx: &Ctx, out: &mut Outcome) -> Check {
        let (defs, body) = super::c17::split_text(text)?;
        check(defs, body, ctx, out)
    }
    fn classify_death(&self, how: &str, case: &Case) -> Option<Failure> {
        // a crash is always a violation; a hang is a violation too (the model bounds every class)
        let _ = case;
        Some(Failure { sig: format!("c18:{how}"), msg: format!("expand_calibrations did not return: {how}") })
    }
    fn floors(&self) -> Vec<(&'static str, f64)> {
        vec![("recursive", 0.05), ("unbounded", 0.02), ("finite", 0.3)]
    }
}

fn check(defs: Vec<Instruction>, body: Vec<Instruction>, ctx: &Ctx, out: &mut Outcome) -> Check {
    {
        let text = format!("{} ;; {}", texts(&defs), texts(&body));
        out.set_key(&text);
        if ctx.render {
            out.render = Some(text.clone());
        }
        if std::env::var("QV_DEBUG").is_ok() {
            eprintln!("case: {text}");
        }
        let (program, set) = build(&defs, &body);
        crate::model::cal::THRESHOLD_SENSITIVE.with(|f| f.set(false));
        let model = model_expand(&set, &body);
        let threshold_sensitive = crate::model::cal::THRESHOLD_SENSITIVE.with(|f| f.get());
        if std::env::var("QV_DEBUG").is_ok() {
            eprintln!("model done: {}", match &model { Ok(_) => "finite", Err(ExpandError::Recursive(_)) => "recursive", Err(ExpandError::Unbounded) => "unbounded" });
        }
        let result = lib(|| program.expand_calibrations())?;
        if threshold_sensitive {
            // the library returned (that much is required of every program); what it returned
            // depends on where the simplifier's 1e-10 folding cuts a shrinking parameter
            out.class("near-threshold-parameter");
            out.skip = Some("near-threshold-parameter");
            return Ok(());
        }
        match model {
            Ok(m) => {
                out.class("finite");
                match result {
                    Ok(p) => {
                        let got: Vec<Instruction> = p.body_instructions().cloned().collect();
                        ensure!(got == m.body, "c18:finite-body", "[{text}]: finite expansion differs from the model: [{}] vs [{}]", texts(&got), texts(&m.body));
                    }
                    Err(e) => fail!("c18:error-without-recursion", "[{text}]: nothing is expanded while being expanded, yet expansion failed: {e}"),
                }
            }
            Err(ExpandError::Recursive(i)) => {
                out.class("recursive");
                out.nontrivial = true;
                match result {
                    Err(ProgramError::RecursiveCalibration(_)) => {}
                    Err(e) => fail!("c18:wrong-error", "[{text}]: expected a recursive-calibration error, got {e}"),
                    Ok(_) => fail!("c18:recursion-not-reported", "[{text}]: {} is expanded again while being expanded, but expansion succeeded", i_text(&i)),
                }
            }
            Err(ExpandError::Unbounded) => {
                out.class("unbounded");
                out.nontrivial = true;
                // returning at all is what is required
                let _ = result;
            }
        }
        Ok(())
    }
}

fn i_text(i: &Instruction) -> String {
    use quil_rs::quil::Quil;
    i.to_quil_or_debug()
}
