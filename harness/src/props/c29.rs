//! C29 — Gate depth equals the longest chain of qualifying gates.
//!
//! Statement: "For every block of gates, measurements and classical instructions, gate depth with
//! threshold k is the largest number of gates acting on at least k qubits along any chain of
//! instructions. In such a chain, consecutive instructions share a qubit and appear in program
//! order with no instruction on that qubit between them."
//!
//! Oracle: O(n·q) longest-chain dynamic programme: depth[j] = w_j + max over the previous
//! instruction on each of j's qubits; answer = max_j depth[j].

use crate::engine::{lib, Case, Check, Ctx, Outcome, Property, Src, Tier};
use crate::gen::classical;
use crate::{ensure, fail};
use quil_rs::instruction::{DefaultHandler, Gate, Instruction, Measurement, Qubit};
use quil_rs::program::analysis::{ControlFlowGraph, QubitGraph};
use quil_rs::quil::Quil;
use quil_rs::Program;

pub struct C29Prop;
pub static C29: C29Prop = C29Prop;

/// Alphabet: all 1-, 2- and 3-qubit gates on distinct qubits of {0,1,2,3} (ordered), MEASURE q,
/// and two classical instructions.
fn alphabet() -> Vec<Instruction> {
    let mut v = vec![];
    let g = |name: &str, qs: &[u64]| Instruction::Gate(Gate::new(name, vec![], qs.iter().map(|q| Qubit::Fixed(*q)).collect(), vec![]).unwrap());
    for a in 0..4u64 {
        v.push(g("X", &[a]));
    }
    for a in 0..4u64 {
        for b in 0..4u64 {
            if a < b {
                v.push(g("CZ", &[a, b]));
            }
        }
    }
    for (a, b, c) in [(0, 1, 2), (0, 1, 3), (0, 2, 3), (1, 2, 3), (2, 1, 0), (3, 0, 1)] {
        v.push(g("CCNOT", &[a, b, c]));
    }
    for a in 0..4u64 {
        v.push(Instruction::Measurement(Measurement { name: None, qubit: Qubit::Fixed(a), target: if a % 2 == 0 { Some(crate::gen::rf::mref("ro", a)) } else { None } }));
    }
    v.push(Instruction::Nop());
    v
}

fn qubits_of(i: &Instruction) -> Vec<u64> {
    i.get_qubits().iter().filter_map(|q| if let Qubit::Fixed(x) = q { Some(*x) } else { None }).collect()
}

fn model_depth(body: &[Instruction], k: usize) -> usize {
    let mut last: [Option<usize>; 8] = [None; 8];
    let mut depth = vec![0usize; body.len()];
    let mut best = 0;
    for (j, i) in body.iter().enumerate() {
        let qs = qubits_of(i);
        let w = match i {
            Instruction::Gate(g) if g.qubits.len() >= k => 1,
            _ => 0,
        };
        let mut d = 0;
        for q in &qs {
            if let Some(p) = last[*q as usize] {
                d = d.max(depth[p]);
            }
        }
        depth[j] = d + w;
        best = best.max(depth[j]);
        for q in &qs {
            last[*q as usize] = Some(j);
        }
    }
    best
}

fn oracle(body: &[Instruction], out: &mut Outcome) -> Check {
    let program = Program::from_instructions(body.to_vec());
    let blocks = ControlFlowGraph::from(&program).into_blocks();
    if body.is_empty() {
        return Ok(());
    }
    ensure!(blocks.len() == 1, "harness:c29-blocks", "expected one block");
    let graph = match lib(|| QubitGraph::try_from_basic_block(&blocks[0], &DefaultHandler))? {
        Ok(g) => g,
        Err(e) => fail!("c29:error", "QubitGraph rejected a block of gates/measurements/classical instructions: {e}"),
    };
    let text = body.iter().map(|i| i.to_quil_or_debug()).collect::<Vec<_>>().join("; ");
    for k in 0..=4usize {
        let got = lib(|| graph.gate_depth(k))?;
        let expected = model_depth(body, k);
        ensure!(got == expected, "c29:depth", "[{text}]: gate_depth({k}) = {got}, longest chain has {expected} qualifying gates");
    }
    let multi: Vec<Vec<u64>> = body.iter().filter(|i| matches!(i, Instruction::Gate(g) if g.qubits.len() >= 2)).map(qubits_of).collect();
    out.nontrivial = multi.iter().enumerate().any(|(a, x)| multi.iter().skip(a + 1).any(|y| x.iter().any(|q| y.contains(q))));
    Ok(())
}

fn max_len(tier: Tier) -> usize {
    tier.pick(3, 4)
}

impl Property for C29Prop {
    fn id(&self) -> &'static str {
        "C29"
    }
    fn rule(&self) -> &'static str {
        "alphabet of 21 instructions: X on each of 4 qubits, CZ on each of the 6 qubit pairs, CCNOT on 6 ordered triples, MEASURE on each qubit (with and without target), NOP, plus classical MOVE/ADD in the random phase. Exhaustive: all sequences of length <= 3 (quick) / <= 4 (thorough); random: sequences of length <= 9 (quick) / <= 11 (thorough) (the implementation enumerates paths, so length is bounded). Each sequence is checked for every threshold 0..4. Non-trivial = >= 2 multi-qubit gates sharing a qubit; distinct by letter sequence."
    }
    fn max_words(&self) -> usize {
        30
    }
    fn cases(&self, tier: Tier) -> u64 {
        tier.pick(40_000, 600_000)
    }
    fn watchdog_s(&self) -> u64 {
        60
    }
    fn run(&self, src: &mut Src, ctx: &Ctx, out: &mut Outcome) -> Check {
        let alpha = alphabet();
        let n = src.below(ctx.tier.pick(10, 12));
        let mut letters = vec![];
        let mut body = vec![];
        for _ in 0..n {
            let l = src.below(alpha.len() + 1);
            letters.push(l);
            if l < alpha.len() {
                body.push(alpha[l].clone());
            } else {
                body.push(classical::classical(src, 1, &["ro"]));
            }
        }
        out.set_key(&letters);
        if ctx.render {
            out.render = Some(body.iter().map(|i| i.to_quil_or_debug()).collect::<Vec<_>>().join("; "));
        }
        oracle(&body, out)
    }
    fn enumerate(&self, tier: Tier, shard: u64, nshards: u64, f: &mut dyn FnMut(Case) -> bool) {
        let a = alphabet().len() as u64;
        let mut counter = 0u64;
        for len in 0..=max_len(tier) {
            for code in 0..a.pow(len as u32) {
                counter += 1;
                if counter % nshards != shard {
                    continue;
                }
                let mut words = vec![len as u32];
                let mut c = code;
                for _ in 0..len {
                    words.push((c % a) as u32);
                    c /= a;
                }
                if !f(Case::direct(words)) {
                    return;
                }
            }
        }
    }
    fn exhaustive_part(&self, tier: Tier) -> Option<String> {
        let a = alphabet().len() as u64;
        let n: u64 = (0..=max_len(tier)).map(|l| a.pow(l as u32)).sum();
        Some(format!("all {n} sequences of length <= {} over the 21-letter alphabet, thresholds 0..4", max_len(tier)))
    }
}
