//! C33 — Wrapping a program in a loop repeats its body exactly n times.
//!
//! Statement: "For every program and every n of at least 2, running the wrapped program executes
//! the original body exactly n times in order and then stops. This holds with a counter region and
//! start label not otherwise used. For n = 1 the program is unchanged, for n = 0 only the body is
//! removed, and every definition is preserved in all cases."
//!
//! Oracle: the wrapped program's body is *executed* by the reference interpreter
//! (`model::interp`, which follows only the counter region and the control flow); the trace of
//! everything else it passes must be the original body repeated n times, and the run must reach
//! the end within a step bound. The shape of the loop the library builds is not prescribed.

use crate::engine::{lib, Check, Ctx, Outcome, Property, Src, Tier};
use crate::gen::defs::{self, Item, Kind, SeqCfg, DEF_KINDS};
use crate::model::interp::{self, Stop};
use crate::{ensure, fail};
use quil_rs::instruction::{Instruction, MemoryReference, Target, TargetPlaceholder};
use quil_rs::quil::Quil;
use quil_rs::Program;

pub struct C33Prop;
pub static C33: C33Prop = C33Prop;

const COUNTER: &str = "loop_counter";

fn texts(l: &[Instruction]) -> Vec<String> {
    l.iter().map(defs::show).collect()
}

fn definitions_of(p: &Program) -> Vec<Instruction> {
    p.to_instructions().into_iter().filter(|i| defs::classify(i).0 != Kind::Body).collect()
}

pub fn oracle(items: &[Item], n: u32, placeholder: bool, resolve_first: bool, out: &mut Outcome) -> Check {
    let original = lib(|| Program::from_instructions(items.iter().map(|i| i.instr.clone()).collect()))?;
    let body: Vec<Instruction> = original.body_instructions().cloned().collect();
    out.nontrivial = n >= 2 && body.len() >= 2;
    out.class(match n {
        0 => "n=0",
        1 => "n=1",
        _ => "n>=2",
    });
    if placeholder {
        out.class("placeholder-target");
    }
    let target = if placeholder { Target::Placeholder(TargetPlaceholder::new("loop_start".into())) } else { Target::Fixed("loop_start".into()) };
    let mut wrapped = lib(|| original.wrap_in_loop(MemoryReference { name: COUNTER.into(), index: 0 }, target, n))?;
    if placeholder && resolve_first {
        lib(|| wrapped.resolve_placeholders())?;
        out.class("resolved-before-run");
    }
    let orig_defs = definitions_of(&original);
    let new_defs = definitions_of(&wrapped);

    // every definition is preserved in all cases
    for d in &orig_defs {
        ensure!(
            new_defs.contains(d),
            format!("c33:definition-lost:{:?}", defs::classify(d).0),
            "n={n}: definition {} of the original is missing or changed in the wrapped program (has {:?})",
            defs::show(d),
            texts(&new_defs)
        );
    }
    for kind in DEF_KINDS {
        let before = orig_defs.iter().filter(|i| defs::classify(i).0 == kind).count();
        let after = new_defs.iter().filter(|i| defs::classify(i).0 == kind).count();
        let allowed_extra = usize::from(kind == Kind::Declare && n >= 2);
        ensure!(
            after >= before && after <= before + allowed_extra,
            format!("c33:definition-count:{kind:?}"),
            "n={n}: {kind:?} definitions went from {before} to {after}"
        );
    }

    let new_body: Vec<Instruction> = wrapped.body_instructions().cloned().collect();
    match n {
        0 => {
            ensure!(new_body.is_empty(), "c33:n0-body-not-empty", "n=0 but the body is {:?}", texts(&new_body));
            ensure!(new_defs == orig_defs, "c33:n0-definitions-changed", "n=0 changed the definitions: {:?} vs {:?}", texts(&new_defs), texts(&orig_defs));
        }
        1 => {
            ensure!(wrapped == original, "c33:n1-changed", "n=1 but the result != the original");
            ensure!(
                lib(|| wrapped.to_instructions())? == lib(|| original.to_instructions())?,
                "c33:n1-changed:listing",
                "n=1 but the listing changed: {:?}",
                texts(&wrapped.to_instructions())
            );
        }
        _ => {
            let bound = (body.len() + 6) * (n as usize + 2) + 16;
            let run = lib(|| interp::run(&new_body, COUNTER, 1, bound))?;
            match &run.stop {
                Stop::Finished => out.class("n>=2-executed"),
                Stop::StepBound => fail!(
                    "c33:does-not-stop",
                    "n={n}: the wrapped program is still running after {bound} steps ({} body instructions passed); wrapped body: {:?}",
                    run.trace.len(),
                    texts(&new_body)
                ),
                Stop::Unsupported(why) => {
                    // the library built a loop the reference interpreter cannot follow: not decided
                    let _ = why;
                    out.skip = Some("loop-shape-not-interpretable");
                    return Ok(());
                }
            }
            let expected: Vec<Instruction> = (0..n).flat_map(|_| body.iter().cloned()).collect();
            if run.trace != expected {
                let per = body.len().max(1);
                let sig = if run.trace.len() % per == 0 && run.trace.len() != expected.len() && run.trace.chunks(per).all(|c| c == body.as_slice()) {
                    "c33:wrong-iteration-count"
                } else {
                    "c33:trace-differs"
                };
                fail!(
                    sig,
                    "n={n}: executing the wrapped program passes {} body instructions ({} repetitions), expected {} ({} repetitions); wrapped body: {:?}",
                    run.trace.len(),
                    run.trace.len() as f64 / per as f64,
                    expected.len(),
                    n,
                    texts(&new_body)
                );
            }
            // the wrapped program is printable once its target is fixed
            if !placeholder || resolve_first {
                ensure!(lib(|| wrapped.to_quil())?.is_ok(), "c33:to-quil-error", "wrapped program does not serialize");
            }
        }
    }
    Ok(())
}

fn generate(src: &mut Src, tier: Tier) -> (Vec<Item>, u32, bool, bool) {
    // scalar choices first: a short choice vector then still varies them
    let n = if src.chance(1, 8) { src.below(2) as u32 } else { src.below(tier.pick(7, 41)) as u32 };
    let (placeholder, resolve_first) = (src.chance(1, 2), src.chance(1, 2));
    // definitions of every kind plus a straight-line body
    let mut items = defs::sequence(src, &SeqCfg { max_len: tier.pick(6, 10), body_pct: 0 });
    let nbody = src.below(tier.pick(7, 12));
    for _ in 0..nbody {
        let at = src.below(items.len() + 1);
        items.insert(at, defs::straight_body(src));
    }
    (items, n, placeholder, resolve_first)
}

impl Property for C33Prop {
    fn id(&self) -> &'static str {
        "C33"
    }
    fn rule(&self) -> &'static str {
        "random programs: <= 6/10 definitions over all 8 definition kinds plus a straight-line body of <= 6/11 instructions (gates, MEASURE, PRAGMA, classical instructions on other regions, PULSE/CAPTURE, CALL, DELAY, FENCE, RESET, NOP, SET-PHASE) interleaved with them; n in 0..6 (quick) / 0..40 (thorough), n in {0,1} over-weighted; counter region loop_counter[0] and start label loop_start never used by the program; the label is fixed or a placeholder (executed as a placeholder or after resolve_placeholders). Non-trivial = n >= 2 and body length >= 2; distinct by (program, n, target kind) hash."
    }
    fn assumptions(&self) -> Vec<&'static str> {
        vec!["JUMP-WHEN is taken iff the referenced cell is non-zero (Quil spec; the method's rustdoc: the loop terminates when the reference reaches 0)"]
    }
    fn max_words(&self) -> usize {
        2 * (10 * 8 + 12 * 3 + 10)
    }
    fn cases(&self, tier: Tier) -> u64 {
        tier.pick(40_000, 800_000)
    }
    fn run(&self, src: &mut Src, ctx: &Ctx, out: &mut Outcome) -> Check {
        let (items, n, placeholder, resolve_first) = generate(src, ctx.tier);
        out.set_key(&(defs::render(&items), n, placeholder, resolve_first));
        if ctx.render {
            out.render = Some(format!("n={n} placeholder={placeholder} resolve_first={resolve_first}: {}", defs::render(&items)));
        }
        oracle(&items, n, placeholder, resolve_first, out)
    }
    /// `n=<n> [placeholder] [resolve]` on the first line, then items separated by `;;` lines.
    fn run_text(&self, text: &str, _ctx: &Ctx, out: &mut Outcome) -> Check {
        let (head, rest) = text.split_once('\n').unwrap_or((text, ""));
        let n: u32 = head.split_whitespace().find_map(|w| w.strip_prefix("n=")).and_then(|v| v.parse().ok()).unwrap_or(2);
        let items = match defs::parse_items(rest) {
            Ok(i) => i,
            Err(e) => fail!("harness:c33-text", "{e}"),
        };
        out.set_key(&(defs::render(&items), n));
        oracle(&items, n, head.contains("placeholder"), head.contains("resolve"), out)
    }
    fn floors(&self) -> Vec<(&'static str, f64)> {
        vec![("n=0", 0.05), ("n=1", 0.05), ("n>=2", 0.5), ("n>=2-executed", 0.45), ("placeholder-target", 0.3)]
    }
}
