//! C08 — Serialization is deterministic and keeps definition order.
//!
//! Statement clauses checked:
//!  (a) "Building a program from the same sequence of instructions always yields byte-identical
//!      serialized text, in the same process or another." — the same item sequence is turned into
//!      a `Program` by 10 routes in this process (every `Program` value owns fresh hasher state,
//!      so order that leaks from a hash map shows up between two values), and, for a sample of
//!      the cases, by a helper process that receives the same choice vector.
//!  (b) "Within each definition kind, output follows the order in which each definition was first
//!      added, and a redefinition with the same key replaces the earlier one in place." —
//!      `to_instructions()` filtered to one kind must equal the insertion-ordered reference map
//!      (`gen::defs::Model`). The order *between* kinds is not asserted (the statement is silent).

use crate::engine::{hash_of, lib, Check, Ctx, Outcome, Property, Src, Tier};
use crate::gen::defs::{self, Item, Kind, Model, SeqCfg, DEF_KINDS};
use crate::{ensure, fail};
use quil_rs::instruction::Instruction;
use quil_rs::quil::Quil;
use quil_rs::Program;
use std::io::{BufRead, BufReader, Write};
use std::process::{Child, ChildStdin, ChildStdout, Command, Stdio};
use std::str::FromStr;
use std::sync::Mutex;

pub struct C08Prop;
pub static C08: C08Prop = C08Prop;

pub fn generate(src: &mut Src, tier: Tier) -> (Vec<Item>, usize) {
    let split_word = src.below(1 << 16);
    let items = defs::sequence(src, &SeqCfg { max_len: tier.pick(14, 24), body_pct: 25 });
    let split = split_word * (items.len() + 1) >> 16;
    (items, split)
}

fn text_of(p: &Program) -> Result<String, crate::engine::Failure> {
    match lib(|| p.to_quil())? {
        Ok(t) => Ok(t),
        Err(e) => fail!("c08:to-quil-error", "to_quil failed: {e:?}"),
    }
}

/// Text of the program built by the plainest route; this is what the helper process computes.
pub fn canonical_text(items: &[Item]) -> String {
    Program::from_instructions(items.iter().map(|i| i.instr.clone()).collect()).to_quil().unwrap_or_else(|e| format!("<error {e:?}>"))
}

struct Helper {
    child: Child,
    stdin: ChildStdin,
    stdout: BufReader<ChildStdout>,
}

static HELPER: Mutex<Option<Helper>> = Mutex::new(None);

/// Ask another process for the hash of the text it obtains from the same choice vector.
fn other_process_hash(words: &[u32], direct: bool, tier: Tier) -> Option<u64> {
    let mut guard = HELPER.lock().ok()?;
    if guard.is_none() {
        let exe = match std::env::var_os("QV_EXE") {
            Some(e) => std::path::PathBuf::from(e),
            None => std::env::current_exe().ok()?,
        };
        let mut child = Command::new(exe).arg("c08-helper").arg(tier.name()).stdin(Stdio::piped()).stdout(Stdio::piped()).spawn().ok()?;
        let stdin = child.stdin.take()?;
        let stdout = BufReader::new(child.stdout.take()?);
        *guard = Some(Helper { child, stdin, stdout });
    }
    let h = guard.as_mut()?;
    let line = format!("{} {}\n", u8::from(direct), words.iter().map(|w| w.to_string()).collect::<Vec<_>>().join(","));
    let ok = h.stdin.write_all(line.as_bytes()).is_ok() && h.stdin.flush().is_ok();
    let mut reply = String::new();
    if !ok || h.stdout.read_line(&mut reply).ok()? == 0 {
        if let Some(mut dead) = guard.take() {
            let _ = dead.child.kill();
            let _ = dead.child.wait();
        }
        return None;
    }
    reply.trim().parse().ok()
}

/// Entry point of `qv c08-helper <tier>`: one line per case in, one hash per case out.
pub fn helper_main(tier: Tier) -> i32 {
    let stdin = std::io::stdin();
    let mut out = std::io::stdout();
    for line in stdin.lock().lines() {
        let Ok(line) = line else { break };
        let (d, ws) = line.split_once(' ').unwrap_or(("0", ""));
        let words: Vec<u32> = ws.split(',').filter(|s| !s.is_empty()).filter_map(|s| s.parse().ok()).collect();
        let mut src = Src::new(&words, d == "1");
        let (items, _) = generate(&mut src, tier);
        let h = hash_of(&canonical_text(&items));
        if writeln!(out, "{h}").is_err() || out.flush().is_err() {
            break;
        }
    }
    0
}

pub fn oracle(items: &[Item], split: usize, out: &mut Outcome) -> Check {
    let list: Vec<Instruction> = items.iter().map(|i| i.instr.clone()).collect();
    let model = Model::from_items(items);
    let frames = model.distinct_keys(Kind::Frame);
    let redefs = Model::redefinitions(items);
    out.nontrivial = frames >= 2 || redefs >= 1;
    if frames >= 2 {
        out.class("frames>=2");
    }
    if redefs >= 1 {
        out.class("redefinition");
    }
    if model.distinct_keys(Kind::Extern) >= 1 {
        out.class("extern");
    }

    // (a) same process, different routes and different Program values
    let mut routes: Vec<(&'static str, Program)> = vec![];
    routes.push(("from_instructions", lib(|| Program::from_instructions(list.clone()))?));
    routes.push(("from_instructions#2", lib(|| Program::from_instructions(list.clone()))?));
    routes.push((
        "add_instruction loop",
        lib(|| {
            let mut p = Program::new();
            for i in &list {
                p.add_instruction(i.clone());
            }
            p
        })?,
    ));
    routes.push((
        "add_instructions",
        lib(|| {
            let mut p = Program::new();
            p.add_instructions(list.clone());
            p
        })?,
    ));
    routes.push(("From<Vec>", lib(|| Program::from(list.clone()))?));
    let (a, b) = list.split_at(split.min(list.len()));
    routes.push(("A + B", lib(|| Program::from_instructions(a.to_vec()) + Program::from_instructions(b.to_vec()))?));
    routes.push((
        "A += B",
        lib(|| {
            let mut p = Program::from_instructions(a.to_vec());
            p += Program::from_instructions(b.to_vec());
            p
        })?,
    ));
    routes.push(("clone", routes[0].1.clone()));
    routes.push(("rebuild from to_instructions", lib(|| Program::from_instructions(routes[0].1.to_instructions()))?));
    let reference = text_of(&routes[0].1)?;
    // route through text: only when the parser reads back an equal program (otherwise it is a
    // print/parse matter that belongs to C02/C04, not to ordering)
    match lib(|| Program::from_str(&reference))? {
        Ok(p) if p == routes[0].1 => routes.push(("parse(to_quil)", p)),
        _ => out.class("text-route-skipped"),
    }
    for (name, p) in &routes[1..] {
        let t = text_of(p)?;
        if t != reference {
            let which = first_difference_kind(&routes[0].1, p);
            fail!(
                format!("c08:nondeterministic-text:{which}"),
                "route `{name}` serializes differently from `from_instructions` for the same instruction sequence.\n--- from_instructions:\n{reference}\n--- {name}:\n{t}"
            );
        }
    }
    // the same value serialized twice
    ensure!(text_of(&routes[0].1)? == reference, "c08:nondeterministic-text:same-value", "serializing the same Program twice gave different text");

    // (b) order within each kind
    let listing = lib(|| routes[0].1.to_instructions())?;
    for kind in DEF_KINDS {
        let got: Vec<&Instruction> = listing.iter().filter(|i| defs::classify(i).0 == kind).collect();
        let want = model.of_kind(kind);
        let same_set = got.len() == want.len() && want.iter().all(|w| got.contains(&w));
        if !same_set {
            fail!(
                format!("c08:definitions-lost-or-stale:{kind:?}"),
                "{kind:?}: program lists {:?}, expected (last value per key) {:?}",
                got.iter().map(|i| i.to_quil_or_debug()).collect::<Vec<_>>(),
                want.iter().map(|i| i.to_quil_or_debug()).collect::<Vec<_>>()
            );
        }
        if got.iter().zip(want.iter()).any(|(g, w)| *g != w) {
            fail!(
                format!("c08:definition-order:{kind:?}"),
                "{kind:?} definitions are not listed in first-insertion order: listed {:?}, expected {:?}",
                got.iter().map(|i| i.to_quil_or_debug()).collect::<Vec<_>>(),
                want.iter().map(|i| i.to_quil_or_debug()).collect::<Vec<_>>()
            );
        }
    }
    let body: Vec<&Instruction> = listing.iter().filter(|i| defs::classify(i).0 == Kind::Body).collect();
    ensure!(body.len() == model.body.len() && body.iter().zip(model.body.iter()).all(|(g, w)| *g == w), "c08:body-order", "body not in insertion order");
    Ok(())
}

fn first_difference_kind(a: &Program, b: &Program) -> String {
    let (la, lb) = (a.to_instructions(), b.to_instructions());
    for (x, y) in la.iter().zip(lb.iter()) {
        if x != y {
            return format!("{:?}", defs::classify(x).0);
        }
    }
    "length".into()
}

impl Property for C08Prop {
    fn id(&self) -> &'static str {
        "C08"
    }
    fn rule(&self) -> &'static str {
        "random sequences of <= 14 (quick) / <= 24 (thorough) instructions, 75% definitions spread evenly over the 8 definition kinds (PRAGMA EXTERN named/unnamed, DECLARE, DEFFRAME over 4 identifiers, DEFWAVEFORM, DEFCAL, DEFCAL MEASURE, DEFGATE of all four kinds, DEFCIRCUIT) with keys from pools of 2-6 and 4+ values per key, 25% body instructions; each sequence built by 10 routes in-process (from_instructions x2, add_instruction loop, add_instructions, From<Vec>, A+B and A+=B at a random split, clone, rebuild from to_instructions, parse of the text) and, for 1 case in 8, in a second process. Non-trivial = >= 2 distinct frames or >= 1 redefinition of a key; distinct by sequence hash."
    }
    fn max_words(&self) -> usize {
        2 * (24 * 8 + 4)
    }
    fn cases(&self, tier: Tier) -> u64 {
        tier.pick(60_000, 1_500_000)
    }
    fn run(&self, src: &mut Src, ctx: &Ctx, out: &mut Outcome) -> Check {
        let (items, split) = generate(src, ctx.tier);
        out.set_key(&(defs::render(&items), split));
        if ctx.render {
            out.render = Some(format!("split at {split}: {}", defs::render(&items)));
        }
        oracle(&items, split, out)?;
        // (a) another process: 1 case in 8
        if out.key % 8 == 0 {
            let mine = hash_of(&canonical_text(&items));
            match other_process_hash(src.all_words(), src.is_direct(), ctx.tier) {
                Some(theirs) => {
                    out.class("cross-process");
                    ensure!(
                        theirs == mine,
                        "c08:nondeterministic-text:cross-process",
                        "another process serializes the same instruction sequence differently; here:\n{}",
                        canonical_text(&items)
                    );
                }
                None => out.class("cross-process-helper-unavailable"),
            }
        }
        Ok(())
    }
    fn run_text(&self, text: &str, _ctx: &Ctx, out: &mut Outcome) -> Check {
        let items = match defs::parse_items(text) {
            Ok(i) => i,
            Err(e) => fail!("harness:c08-text", "{e}"),
        };
        out.set_key(&defs::render(&items));
        for split in 0..=items.len() {
            oracle(&items, split, out)?;
        }
        Ok(())
    }
    fn floors(&self) -> Vec<(&'static str, f64)> {
        vec![("frames>=2", 0.2), ("redefinition", 0.3), ("extern", 0.3), ("cross-process", 0.05)]
    }
}
