//! C26 — Default frame matching follows the Quil-T frame rules.
//!
//! Oracle: `model::frames::matching` (written from the statement) vs
//! `DefaultHandler.matching_frames` on a program defining a subset of an 8-frame universe. Always
//! checked: reported frames are defined in the program and used/blocked are disjoint. Bare RESET:
//! only those general invariants (the statement does not define it).

use crate::engine::{lib, Case, Check, Ctx, Outcome, Property, Src, Tier};
use crate::gen::rf;
use crate::model::frames as mf;
use crate::{ensure, fail};
use quil_rs::instruction::{DefaultHandler, FrameDefinition, FrameIdentifier, Instruction, InstructionHandler};
use quil_rs::quil::Quil;
use quil_rs::Program;
use std::collections::BTreeSet;

pub struct C26Prop;
pub static C26: C26Prop = C26Prop;

/// Universe of definable frames (two share the qubit set {0,1} in different orders).
pub fn universe() -> Vec<FrameIdentifier> {
    vec![
        rf::frame(&[0], "a"),
        rf::frame(&[0], "b"),
        rf::frame(&[1], "a"),
        rf::frame(&[2], "c"),
        rf::frame(&[0, 1], "c"),
        rf::frame(&[1, 0], "c"),
        rf::frame(&[1, 2], "a"),
        rf::frame(&[0, 1, 2], "b"),
    ]
}

/// Frames an instruction may name: the universe plus two that are never defined.
fn query_frames() -> Vec<FrameIdentifier> {
    let mut v = universe();
    v.push(rf::frame(&[2], "a"));
    v.push(rf::frame(&[0, 2], "c"));
    v
}

const QUBIT_LISTS: [&[u64]; 15] =
    [&[0], &[1], &[2], &[0, 1], &[1, 0], &[0, 2], &[2, 0], &[1, 2], &[2, 1], &[0, 1, 2], &[0, 2, 1], &[1, 0, 2], &[1, 2, 0], &[2, 0, 1], &[2, 1, 0]];
const NAME_SETS: [&[&str]; 8] = [&[], &["a"], &["b"], &["c"], &["a", "b"], &["a", "c"], &["b", "c"], &["a", "b", "c"]];
const FENCE_SETS: [&[u64]; 8] = [&[], &[0], &[1], &[2], &[0, 1], &[0, 2], &[1, 2], &[0, 1, 2]];

pub fn query_count() -> usize {
    let q = query_frames().len();
    3 * 2 * q + 5 * q + q * q + FENCE_SETS.len() + QUBIT_LISTS.len() * NAME_SETS.len() + 3 + 1
}

pub fn query(mut i: usize) -> Instruction {
    let qf = query_frames();
    let q = qf.len();
    if i < 6 * q {
        let f = &qf[i % q];
        let kind = i / q;
        let blocking = kind % 2 == 0;
        return match kind / 2 {
            0 => rf::pulse(blocking, f, rf::flat(1.0)),
            1 => rf::capture(blocking, f, rf::flat(1.0), rf::mref("ro", 0)),
            _ => rf::raw_capture(blocking, f, rf::real(1.0), rf::mref("raw", 0)),
        };
    }
    i -= 6 * q;
    if i < 5 * q {
        let f = &qf[i % q];
        return match i / q {
            0 => rf::set_frequency(f, rf::real(1.0)),
            1 => rf::set_phase(f, rf::real(1.0)),
            2 => rf::set_scale(f, rf::real(1.0)),
            3 => rf::shift_frequency(f, rf::real(1.0)),
            _ => rf::shift_phase(f, rf::real(1.0)),
        };
    }
    i -= 5 * q;
    if i < q * q {
        return rf::swap_phases(&qf[i / q], &qf[i % q]);
    }
    i -= q * q;
    if i < FENCE_SETS.len() {
        return rf::fence(FENCE_SETS[i]);
    }
    i -= FENCE_SETS.len();
    if i < QUBIT_LISTS.len() * NAME_SETS.len() {
        return rf::delay(QUBIT_LISTS[i / NAME_SETS.len()], NAME_SETS[i % NAME_SETS.len()], rf::real(1.0));
    }
    i -= QUBIT_LISTS.len() * NAME_SETS.len();
    if i < 3 {
        return rf::reset(Some(i as u64));
    }
    rf::reset(None)
}

pub fn program_with_frames(defined: &[FrameIdentifier], extra: Vec<Instruction>) -> Program {
    let mut p = Program::new();
    for f in defined {
        p.add_instruction(Instruction::FrameDefinition(FrameDefinition { identifier: f.clone(), attributes: Default::default() }));
    }
    for i in extra {
        p.add_instruction(i);
    }
    p
}

pub fn oracle(subset: u32, qi: usize, with_body: bool, ctx: &Ctx, out: &mut Outcome) -> Check {
    let uni = universe();
    let defined: Vec<FrameIdentifier> = uni.iter().enumerate().filter(|(i, _)| subset >> i & 1 == 1).map(|(_, f)| f.clone()).collect();
    let instruction = query(qi);
    // the instruction itself may or may not be part of the program (matters only for bare RESET)
    let program = program_with_frames(&defined, if with_body { vec![instruction.clone(), rf::fence(&[0, 1])] } else { vec![] });
    if ctx.render {
        out.render = Some(format!(
            "frames {{{}}} ; {}",
            defined.iter().map(|f| f.to_quil_or_debug()).collect::<Vec<_>>().join(", "),
            instruction.to_quil_or_debug()
        ));
    }
    let got = match lib(|| DefaultHandler.matching_frames(&program, &instruction))? {
        Some(m) => m,
        None => fail!("c26:none", "matching_frames returned None for {}", instruction.to_quil_or_debug()),
    };
    let index = |f: &FrameIdentifier| defined.iter().position(|d| d == f);
    let mut used = BTreeSet::new();
    let mut blocked = BTreeSet::new();
    for f in &got.used {
        match index(f) {
            Some(i) => {
                used.insert(i);
            }
            None => fail!("c26:undefined-frame", "used frame {} is not defined in the program", f.to_quil_or_debug()),
        }
    }
    for f in &got.blocked {
        match index(f) {
            Some(i) => {
                blocked.insert(i);
            }
            None => fail!("c26:undefined-frame", "blocked frame {} is not defined in the program", f.to_quil_or_debug()),
        }
    }
    ensure!(used.is_disjoint(&blocked), "c26:overlap", "used and blocked overlap for {}", instruction.to_quil_or_debug());
    let kind = kind_of(&instruction);
    out.class(kind);
    if let Some(expected) = mf::matching(&defined, &instruction) {
        let two_share = defined.iter().enumerate().any(|(i, a)| defined.iter().skip(i + 1).any(|b| a.qubits.iter().any(|q| b.qubits.contains(q))));
        out.nontrivial = !(expected.used.is_empty() && expected.blocked.is_empty()) && two_share;
        let names = |s: &BTreeSet<usize>| s.iter().map(|i| defined[*i].to_quil_or_debug()).collect::<Vec<_>>().join(", ");
        ensure!(
            used == expected.used,
            format!("c26:used:{kind}"),
            "{} with frames {{{}}}: used {{{}}}, rules give {{{}}}",
            instruction.to_quil_or_debug(),
            names(&(0..defined.len()).collect()),
            names(&used),
            names(&expected.used)
        );
        ensure!(
            blocked == expected.blocked,
            format!("c26:blocked:{kind}"),
            "{} with frames {{{}}}: blocked {{{}}}, rules give {{{}}}",
            instruction.to_quil_or_debug(),
            names(&(0..defined.len()).collect()),
            names(&blocked),
            names(&expected.blocked)
        );
    } else {
        out.class("bare-reset-invariants-only");
    }
    Ok(())
}

fn kind_of(i: &Instruction) -> &'static str {
    match i {
        Instruction::Pulse(p) => if p.blocking { "pulse" } else { "nonblocking-pulse" },
        Instruction::Capture(p) => if p.blocking { "capture" } else { "nonblocking-capture" },
        Instruction::RawCapture(p) => if p.blocking { "raw-capture" } else { "nonblocking-raw-capture" },
        Instruction::SetFrequency(_) | Instruction::SetPhase(_) | Instruction::SetScale(_) | Instruction::ShiftFrequency(_) | Instruction::ShiftPhase(_) => "frame-update",
        Instruction::SwapPhases(_) => "swap-phases",
        Instruction::Fence(f) => if f.qubits.is_empty() { "fence-all" } else { "fence-qubits" },
        Instruction::Delay(d) => if d.frame_names.is_empty() { "delay" } else { "delay-named" },
        Instruction::Reset(r) => if r.qubit.is_some() { "reset-qubit" } else { "reset-all" },
        _ => "other",
    }
}

impl Property for C26Prop {
    fn id(&self) -> &'static str {
        "C26"
    }
    fn rule(&self) -> &'static str {
        "enumerated: every subset of an 8-frame universe over qubits {0,1,2} and names {a,b,c} (incl. frames 0 1 \"c\" and 1 0 \"c\", a 3-qubit frame) x every query (PULSE/CAPTURE/RAW-CAPTURE blocking and not, the five SET/SHIFT updates, SWAP-PHASES over all frame pairs, FENCE over all qubit subsets, DELAY over all ordered qubit lists x all name subsets, RESET q, RESET) over 10 query frames (2 never defined); all 256 subsets in both tiers; random phase repeats sampled (subset, query) pairs with the instruction also placed in the program body. Non-trivial = the rules give a non-empty match in a frame set where two frames share a qubit; distinct by (subset, query, in-body)."
    }
    fn max_words(&self) -> usize {
        4
    }
    fn cases(&self, tier: Tier) -> u64 {
        tier.pick(20_000, 100_000)
    }
    fn run(&self, src: &mut Src, ctx: &Ctx, out: &mut Outcome) -> Check {
        let subset = src.below(256) as u32;
        let qi = src.below(query_count());
        let with_body = src.chance(1, 2);
        out.set_key(&(subset, qi, with_body));
        oracle(subset, qi, with_body, ctx, out)
    }
    fn enumerate(&self, tier: Tier, shard: u64, nshards: u64, f: &mut dyn FnMut(Case) -> bool) {
        let n = query_count();
        let mut counter = 0u64;
        for subset in 0..256u32 {
            // quick: every second subset pattern, but always the full and the singleton sets
            if false && tier == Tier::Quick {
                continue;
            }
            for qi in 0..n {
                counter += 1;
                if counter % nshards != shard {
                    continue;
                }
                if !f(Case::direct(vec![subset, qi as u32, 0])) {
                    return;
                }
            }
        }
    }
    fn exhaustive_part(&self, tier: Tier) -> Option<String> {
        Some(format!("{} frame subsets x {} queries", tier.pick(256, 256), query_count()))
    }
}
