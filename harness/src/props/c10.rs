//! C10 — A program's used-qubit set and equality depend only on its content.
//!
//! Statement: "After any sequence of public operations, a program's used-qubit set equals the set
//! of qubits mentioned by its instructions. Two programs with the same instruction listing compare
//! equal. The operations include building, adding, concatenating, cloning without body, resolving
//! placeholders, expanding calibrations or gate sequences, and simplifying."
//!
//! A case is a history: a vector of operations interpreted over up to three live programs. After
//! every operation, for every live program `p`:
//!   (a) `p.get_used_qubits()` equals the union of `Instruction::get_qubits` over
//!       `p.to_instructions()` — the library's own notion of "qubits an instruction mentions", so
//!       the oracle cannot be stricter than the cache's documented meaning;
//!   (b) `p == Program::from_instructions(p.to_instructions())`, and any two live programs with
//!       equal listings compare equal.
//! An operation that returns an error leaves the program as it was (and is counted).

use crate::engine::{lib, Check, Ctx, Failure, Outcome, Property, Src, Tier};
use crate::gen::defs::{self, Kind, SeqCfg};
use crate::{ensure, fail};
use quil_rs::instruction::{
    DefaultHandler, Gate, Instruction, Jump, Label, Measurement, MemoryReference, Qubit, QubitPlaceholder, Target, TargetPlaceholder,
};
use quil_rs::quil::Quil;
use quil_rs::Program;
use std::collections::HashSet;
use std::str::FromStr;

pub struct C10Prop;
pub static C10: C10Prop = C10Prop;

struct Live {
    p: Program,
    /// went through an operation that starts from an empty used-qubit cache while keeping the
    /// calibrations (known finding c10-clone-without-body-drops-definition-qubits)
    tainted: bool,
}

struct World {
    live: Vec<Live>,
    qph: Vec<QubitPlaceholder>,
    tph: Vec<TargetPlaceholder>,
    log: Vec<String>,
}

fn placeholder_instruction(src: &mut Src, w: &World) -> Instruction {
    match src.below(4) {
        0 => Instruction::Gate(Gate::new("X", vec![], vec![Qubit::Placeholder(src.pick(&w.qph).clone())], vec![]).unwrap()),
        1 => Instruction::Gate(
            Gate::new("CNOT", vec![], vec![Qubit::Placeholder(w.qph[0].clone()), Qubit::Fixed(src.below(3) as u64)], vec![]).unwrap(),
        ),
        2 => Instruction::Measurement(Measurement {
            name: None,
            qubit: Qubit::Placeholder(src.pick(&w.qph).clone()),
            target: Some(MemoryReference { name: "ro".into(), index: 0 }),
        }),
        _ => {
            let t = Target::Placeholder(src.pick(&w.tph).clone());
            if src.chance(1, 2) {
                Instruction::Label(Label { target: t })
            } else {
                Instruction::Jump(Jump { target: t })
            }
        }
    }
}

fn mentioned(p: &Program) -> HashSet<Qubit> {
    p.to_instructions().iter().flat_map(|i| i.get_qubits().into_iter().cloned()).collect()
}

fn show_set(s: &HashSet<Qubit>) -> Vec<String> {
    let mut v: Vec<String> = s.iter().map(|q| q.to_quil_or_debug()).collect();
    v.sort();
    v
}

fn check_program(l: &Live, idx: usize, log: &[String]) -> Check {
    let p = &l.p;
    let want = lib(|| mentioned(p))?;
    let got = p.get_used_qubits().clone();
    if got != want {
        let missing: HashSet<Qubit> = want.difference(&got).cloned().collect();
        let extra: HashSet<Qubit> = got.difference(&want).cloned().collect();
        let body_qubits: HashSet<Qubit> = p.body_instructions().flat_map(|i| i.get_qubits().into_iter().cloned()).collect();
        let only_definition_qubits_missing = extra.is_empty() && missing.iter().all(|q| !body_qubits.contains(q));
        let sig = if l.tainted && only_definition_qubits_missing {
            "c10:used-qubits:definition-qubits-dropped"
        } else if !extra.is_empty() {
            "c10:used-qubits:stale"
        } else {
            "c10:used-qubits:missing"
        };
        fail!(
            sig,
            "program #{idx}: get_used_qubits() = {:?} but its instructions mention {:?} (missing {:?}, extra {:?}); history: {}",
            show_set(&got),
            show_set(&want),
            show_set(&missing),
            show_set(&extra),
            log.join(" → ")
        );
    }
    Ok(())
}

fn check_equalities(w: &World) -> Check {
    let listings: Vec<Vec<Instruction>> = w.live.iter().map(|l| l.p.to_instructions()).collect();
    for (k, l) in w.live.iter().enumerate() {
        let rebuilt = lib(|| Program::from_instructions(listings[k].clone()))?;
        ensure!(
            rebuilt == l.p,
            "c10:not-equal-to-rebuild",
            "program #{k} != Program::from_instructions(its own to_instructions()); history: {}",
            w.log.join(" → ")
        );
        ensure!(lib(|| l.p.clone())? == l.p, "c10:not-equal-to-clone", "program #{k} != its clone");
    }
    for a in 0..w.live.len() {
        for b in a + 1..w.live.len() {
            if listings[a] == listings[b] {
                ensure!(
                    w.live[a].p == w.live[b].p,
                    "c10:same-listing-not-equal",
                    "programs #{a} and #{b} list the same instructions but compare unequal; history: {}",
                    w.log.join(" → ")
                );
            }
        }
    }
    Ok(())
}

const NOPS: usize = 19;
/// Largest body (in instructions) a history is allowed to build by concatenation or looping.
const SIZE_CAP: usize = 4000;

fn step(src: &mut Src, w: &mut World, tier: Tier, out: &mut Outcome) -> Result<(), Failure> {
    let k = src.below(w.live.len());
    let cfg = SeqCfg { max_len: tier.pick(6, 10), body_pct: 40 };
    let op = src.weighted(&[2, 4, 2, 2, 2, 3, 2, 2, 3, 2, 2, 2, 3, 2, 1, 1, 2, 4, 3]);
    debug_assert!(op < NOPS);
    match op {
        0 => {
            let items = defs::sequence(src, &cfg);
            w.log.push(format!("#{k} = from_instructions[{}]", defs::render(&items)));
            w.live[k] = Live { p: lib(|| Program::from_instructions(items.iter().map(|i| i.instr.clone()).collect()))?, tainted: false };
        }
        1 => {
            let i = if src.chance(1, 3) {
                placeholder_instruction(src, w)
            } else if src.chance(1, 2) {
                defs::body(src).instr
            } else {
                let kind = *src.pick(&[Kind::Cal, Kind::MeasureCal, Kind::Frame, Kind::Gate, Kind::Circuit, Kind::Declare]);
                defs::definition(src, kind).instr
            };
            w.log.push(format!("#{k}.add_instruction({})", defs::show(&i)));
            lib(|| w.live[k].p.add_instruction(i))?;
        }
        2 => {
            let items = defs::sequence(src, &cfg);
            w.log.push(format!("#{k}.add_instructions[{}]", defs::render(&items)));
            lib(|| w.live[k].p.add_instructions(items.iter().map(|i| i.instr.clone())))?;
        }
        3 | 4 => {
            let j = src.below(w.live.len());
            // repeated self-concatenation doubles a program at every step; the property says nothing
            // about time or memory, so histories stop growing a program beyond a few thousand
            // instructions
            if w.live[k].p.body_instructions().count() + w.live[j].p.body_instructions().count() > SIZE_CAP {
                out.class("op:skipped-size-cap");
                return Ok(());
            }
            let rhs = w.live[j].p.clone();
            let tainted = w.live[k].tainted || w.live[j].tainted;
            if op == 3 {
                w.log.push(format!("#{k} = #{k} + #{j}"));
                let lhs = w.live[k].p.clone();
                w.live[k].p = lib(|| lhs + rhs)?;
            } else {
                w.log.push(format!("#{k} += #{j}"));
                lib(|| w.live[k].p += rhs)?;
            }
            w.live[k].tainted = tainted;
            out.class("op:concat");
        }
        5 => {
            w.log.push(format!("#{k} = #{k}.clone_without_body_instructions()"));
            w.live[k].p = lib(|| w.live[k].p.clone_without_body_instructions())?;
            w.live[k].tainted = true;
            out.class("op:clone-without-body");
        }
        6 => {
            w.log.push(format!("#{k}.resolve_placeholders()"));
            lib(|| w.live[k].p.resolve_placeholders())?;
            w.live[k].tainted = false; // documented to rebuild the cache
            out.class("op:resolve");
        }
        7 => {
            // custom resolvers: resolve the first qubit placeholder only, leave targets alone
            let first = w.qph[0].clone();
            let to = 10 + src.below(3) as u64;
            w.log.push(format!("#{k}.resolve_placeholders_with_custom_resolvers(q0 -> {to})"));
            lib(|| {
                w.live[k]
                    .p
                    .resolve_placeholders_with_custom_resolvers(Box::new(|_| None), Box::new(move |q| if *q == first { Some(to) } else { None }))
            })?;
            w.live[k].tainted = false;
            out.class("op:resolve");
        }
        8 | 9 => {
            let r = if op == 8 {
                w.log.push(format!("#{k} = #{k}.expand_calibrations()"));
                lib(|| w.live[k].p.expand_calibrations())?
            } else {
                w.log.push(format!("#{k} = #{k}.expand_calibrations_with_source_map().0"));
                lib(|| w.live[k].p.expand_calibrations_with_source_map().map(|(p, _)| p))?
            };
            match r {
                Ok(p) => {
                    w.live[k] = Live { p, tainted: true };
                    out.class("op:expand-calibrations");
                }
                Err(_) => out.class("op-error"),
            }
        }
        10 | 11 => {
            let mask = src.below(8);
            let filter = move |name: &str| match name {
                "GA" => mask & 1 != 0,
                "GB" => mask & 2 != 0,
                _ => mask & 4 != 0,
            };
            let r = if op == 10 {
                w.log.push(format!("#{k} = #{k}.expand_defgate_sequences(mask {mask})"));
                let p = w.live[k].p.clone();
                lib(|| p.expand_defgate_sequences(filter))?
            } else {
                w.log.push(format!("#{k} = #{k}.expand_defgate_sequences_with_source_map(mask {mask}).0"));
                lib(|| w.live[k].p.expand_defgate_sequences_with_source_map(filter).map(|(p, _)| p))?
            };
            match r {
                Ok(p) => {
                    w.live[k] = Live { p, tainted: true };
                    out.class("op:expand-sequences");
                }
                Err(_) => out.class("op-error"),
            }
        }
        12 => {
            w.log.push(format!("#{k} = #{k}.simplify(DefaultHandler)"));
            match lib(|| w.live[k].p.simplify(&DefaultHandler))? {
                Ok(p) => {
                    w.live[k] = Live { p, tainted: true };
                    out.class("op:simplify");
                }
                Err(_) => out.class("op-error"),
            }
        }
        13 => {
            let n = src.below(4) as u32;
            let target = if src.chance(1, 2) { Target::Fixed("loop".into()) } else { Target::Placeholder(w.tph[0].clone()) };
            w.log.push(format!("#{k} = #{k}.wrap_in_loop(cnt[0], {}, {n})", target.to_quil_or_debug()));
            w.live[k].p = lib(|| w.live[k].p.wrap_in_loop(MemoryReference { name: "cnt".into(), index: 0 }, target, n))?;
            if n != 1 {
                w.live[k].tainted = true;
            }
            out.class("op:wrap-in-loop");
        }
        14 => {
            let drop_kind = src.below(3);
            w.log.push(format!("#{k} = #{k}.filter_instructions(kind {drop_kind})"));
            w.live[k].p = lib(|| {
                w.live[k].p.filter_instructions(|i| match drop_kind {
                    0 => !matches!(i, Instruction::Gate(_)),
                    1 => !matches!(i, Instruction::CalibrationDefinition(_) | Instruction::MeasureCalibrationDefinition(_)),
                    _ => !matches!(i, Instruction::Pragma(_)),
                })
            })?;
            w.live[k].tainted = false;
        }
        15 => {
            w.log.push(format!("#{k} = #{k}.dagger()"));
            match lib(|| w.live[k].p.dagger())? {
                Ok(p) => w.live[k] = Live { p, tainted: false },
                Err(_) => out.class("op-error"),
            }
        }
        17 | 18 => {
            // directed: redefine one of #k's calibrations (same identifier, new body) through
            // concatenation with a one-definition program (17) or through add_instruction (18)
            let cals: Vec<Instruction> = w.live[k]
                .p
                .to_instructions()
                .into_iter()
                .filter(|i| matches!(i, Instruction::CalibrationDefinition(_) | Instruction::MeasureCalibrationDefinition(_)))
                .collect();
            if cals.is_empty() {
                out.class("op-error");
                return Ok(());
            }
            let mut redefinition = src.pick(&cals).clone();
            let body = vec![defs::parse1(if src.chance(1, 2) { "PRAGMA redefined" } else { "FENCE 9" })];
            match &mut redefinition {
                Instruction::CalibrationDefinition(c) => c.instructions = body,
                Instruction::MeasureCalibrationDefinition(c) => c.instructions = body,
                _ => {}
            }
            if op == 17 {
                let via_add = src.chance(1, 2);
                w.log.push(format!("#{k} {} Program[{}]", if via_add { "= #k +" } else { "+=" }, defs::show(&redefinition)));
                let rhs = lib(|| Program::from_instructions(vec![redefinition]))?;
                if via_add {
                    let lhs = w.live[k].p.clone();
                    w.live[k].p = lib(|| lhs + rhs)?;
                } else {
                    lib(|| w.live[k].p += rhs)?;
                }
            } else {
                w.log.push(format!("#{k}.add_instruction({}) [redefinition]", defs::show(&redefinition)));
                lib(|| w.live[k].p.add_instruction(redefinition))?;
            }
            out.class("op:redefine-calibration");
        }
        _ => {
            w.log.push(format!("#{k} = parse(#{k}.to_quil())"));
            match lib(|| w.live[k].p.to_quil())? {
                Ok(text) => match lib(|| Program::from_str(&text))? {
                    Ok(p) => w.live[k] = Live { p, tainted: false },
                    Err(_) => out.class("op-error"),
                },
                Err(_) => out.class("op-error"),
            }
        }
    }
    Ok(())
}

impl Property for C10Prop {
    fn id(&self) -> &'static str {
        "C10"
    }
    fn rule(&self) -> &'static str {
        "random histories of <= 8 (quick) / <= 20 (thorough) operations over 1-3 live programs; operations: from_instructions, add_instruction (body, placeholder-bearing, or definition), add_instructions, +, +=, clone_without_body_instructions, resolve_placeholders (default and custom), expand_calibrations (both entry points), expand_defgate_sequences (both entry points, all 8 filters over the gate-name pool), simplify, wrap_in_loop (n 0..3, fixed or placeholder target), filter_instructions, dagger, parse(to_quil), and directed redefinition of one of the program's own calibrations (same identifier, new body) through + / += of a one-definition program or through add_instruction. Programs come from the shared definition generator, whose calibrations mention qubits (3, 6, 7) that no body instruction uses. After every operation every live program is checked. Non-trivial = the history applies clone-without-body / expansion / simplify / wrap_in_loop / resolve to a program that holds a calibration; distinct by the history's hash."
    }
    fn max_words(&self) -> usize {
        20 * 120 + 3 * 100 + 10
    }
    fn cases(&self, tier: Tier) -> u64 {
        tier.pick(30_000, 500_000)
    }
    fn run(&self, src: &mut Src, ctx: &Ctx, out: &mut Outcome) -> Check {
        let nlive = 1 + src.below(3);
        let mut w = World {
            live: (0..nlive).map(|_| Live { p: Program::new(), tainted: false }).collect(),
            qph: vec![QubitPlaceholder::default(), QubitPlaceholder::default()],
            tph: vec![TargetPlaceholder::new("loop".into()), TargetPlaceholder::new("end".into())],
            log: vec![],
        };
        let steps = 1 + src.below(ctx.tier.pick(8, 20));
        // every live program starts from a generated instruction sequence
        for k in 0..nlive {
            let items = defs::sequence(src, &SeqCfg { max_len: ctx.tier.pick(8, 12), body_pct: 35 });
            w.log.push(format!("#{k} = from_instructions[{}]", defs::render(&items)));
            w.live[k].p = lib(|| Program::from_instructions(items.iter().map(|i| i.instr.clone()).collect()))?;
        }
        let mut result: Check = Ok(());
        for _ in 0..steps {
            let classes_before = out.classes.len();
            let had_cal: Vec<bool> =
                w.live.iter().map(|l| !l.p.calibrations.is_empty() || l.p.calibrations.measure_calibrations.len() > 0).collect();
            step(src, &mut w, ctx.tier, out)?;
            let new_interesting = out.classes[classes_before..].iter().any(|c| {
                matches!(*c, "op:clone-without-body" | "op:expand-calibrations" | "op:expand-sequences" | "op:simplify" | "op:wrap-in-loop" | "op:resolve")
            }) || out.classes.iter().any(|c| c.starts_with("op:") && *c != "op:concat");
            if new_interesting && had_cal.iter().any(|b| *b) {
                out.nontrivial = true;
            }
            for (idx, l) in w.live.iter().enumerate() {
                let r = check_program(l, idx, &w.log);
                if let Err(f) = ctx.tolerate(out, r) {
                    result = Err(f);
                    break;
                }
            }
            if result.is_ok() {
                result = check_equalities(&w);
            }
            if result.is_err() {
                break;
            }
        }
        out.set_key(&w.log);
        if ctx.render {
            out.render = Some(w.log.join(" → "));
        }
        result
    }
    /// Hand-written histories over one program, one command per line:
    /// `add <instruction, newlines written as \n>` | `clone_without_body` | `expand_calibrations` |
    /// `expand_sequences` | `simplify` | `wrap <n>` | `resolve` | `self_concat`.
    fn run_text(&self, text: &str, ctx: &Ctx, out: &mut Outcome) -> Check {
        let mut l = Live { p: Program::new(), tainted: false };
        let mut log = vec![];
        for line in text.lines().filter(|l| !l.trim().is_empty()) {
            log.push(line.to_string());
            let (cmd, arg) = line.split_once(' ').unwrap_or((line, ""));
            match cmd {
                "add" => match Instruction::from_str(&arg.replace("\\n", "\n")) {
                    Ok(i) => lib(|| l.p.add_instruction(i))?,
                    Err(e) => fail!("harness:c10-text", "{arg:?}: {e}"),
                },
                "clone_without_body" => l = Live { p: lib(|| l.p.clone_without_body_instructions())?, tainted: true },
                "expand_calibrations" => {
                    if let Ok(p) = lib(|| l.p.expand_calibrations())? {
                        l = Live { p, tainted: true }
                    }
                }
                "expand_sequences" => {
                    let p0 = l.p.clone();
                    if let Ok(p) = lib(|| p0.expand_defgate_sequences(|_| true))? {
                        l = Live { p, tainted: true }
                    }
                }
                "simplify" => {
                    if let Ok(p) = lib(|| l.p.simplify(&DefaultHandler))? {
                        l = Live { p, tainted: true }
                    }
                }
                "wrap" => {
                    let n: u32 = arg.trim().parse().unwrap_or(2);
                    l = Live { p: lib(|| l.p.wrap_in_loop(MemoryReference { name: "cnt".into(), index: 0 }, Target::Fixed("loop".into()), n))?, tainted: n != 1 }
                }
                "resolve" => {
                    lib(|| l.p.resolve_placeholders())?;
                    l.tainted = false;
                }
                "self_concat" => {
                    let rhs = l.p.clone();
                    lib(|| l.p += rhs)?;
                }
                other => fail!("harness:c10-text", "unknown command {other:?}"),
            }
            let r = check_program(&l, 0, &log);
            ctx.tolerate(out, r)?;
            let w = World { live: vec![Live { p: l.p.clone(), tainted: l.tainted }], qph: vec![], tph: vec![], log: log.clone() };
            check_equalities(&w)?;
        }
        out.set_key(&log);
        Ok(())
    }
    fn floors(&self) -> Vec<(&'static str, f64)> {
        vec![
            ("op:clone-without-body", 0.1),
            ("op:expand-calibrations", 0.1),
            ("op:expand-sequences", 0.05),
            ("op:simplify", 0.05),
            ("op:resolve", 0.1),
            ("op:concat", 0.1),
            ("op:redefine-calibration", 0.05),
        ]
    }
}
