//! C20 and C21 — gate-sequence (`DEFGATE … AS SEQUENCE`) expansion and its source map.
//!
//! Shared generator: up to four definitions over the names {A, B, C, D} (sequence definitions with
//! 0–2 parameters and 1–2 qubit parameters whose elements invoke each other — cycles are likely —
//! or standard gates, sometimes with a wrong arity or a modifier; and non-sequence definitions on
//! the same names), a body that invokes them (right / wrong arity, modifiers, variable qubits)
//! among other instructions, and **every** selection filter over the four names.
//!
//! Reference expander (written from the C20 statement): a selected invocation of a sequence
//! definition is replaced by the definition's gates with formal parameters and qubits substituted,
//! recursively with the current chain of names; an error is expected when the parameter or qubit
//! count is wrong, a qubit argument is not a fixed qubit, the invocation carries a modifier, or the
//! name is already on the chain (cycle). Which error is reported is not asserted.

use crate::engine::{lib, Check, Ctx, Outcome, Property, Src, Tier};
use crate::gen::expr as gx;
use crate::{ensure, fail};
use quil_rs::expression::{Expression, InfixOperator};
use quil_rs::instruction::{DefGateSequence, Gate, GateDefinition, GateModifier, GateSpecification, Instruction, MemoryReference, Pragma, Qubit};
use quil_rs::program::{ExpansionResult, InstructionIndex};
use quil_rs::program::{DefGateSequenceExpansion, SourceMap};
use quil_rs::quil::Quil;
use quil_rs::Program;
use std::collections::{BTreeSet, HashMap};

const NAMES: [&str; 4] = ["A", "B", "C", "D"];

#[derive(Clone, Debug)]
struct Sig {
    defined: bool,
    sequence: bool,
    params: Vec<String>,
    qubits: Vec<String>,
}

pub struct Generated {
    pub program: Program,
    pub text: String,
    body: Vec<Instruction>,
    defs: Vec<GateDefinition>,
    /// for each definition: its formal qubits and elements if it is a sequence (the generator's
    /// own record; the library keeps these fields private)
    parts: Vec<Option<(Vec<String>, Vec<Gate>)>>,
}

fn param_expr(src: &mut Src, formal: &[String]) -> Expression {
    let leaf = |src: &mut Src| -> Expression {
        if !formal.is_empty() && src.chance(3, 5) {
            Expression::Variable(src.pick(formal).clone())
        } else {
            match src.below(3) {
                0 => gx::num(0.5, 0.0),
                1 => Expression::PiConstant(),
                _ => Expression::Address(MemoryReference { name: "theta".into(), index: src.below(2) as u64 }),
            }
        }
    };
    match src.below(4) {
        0 => {
            let l = leaf(src);
            let r = leaf(src);
            gx::infix(l, *src.pick(&[InfixOperator::Plus, InfixOperator::Star, InfixOperator::Slash]), r)
        }
        _ => leaf(src),
    }
}

fn element(src: &mut Src, sigs: &[Sig], own: &Sig) -> Gate {
    // invoke another definition of the pool (60%) or a standard gate
    let (name, want_params, want_qubits) = if src.chance(3, 5) {
        let k = src.below(4);
        let s = &sigs[k];
        (NAMES[k].to_string(), if s.defined { s.params.len() } else { 0 }, if s.defined && s.sequence { s.qubits.len() } else { 1 })
    } else {
        match src.below(3) {
            0 => ("RX".to_string(), 1, 1),
            1 => ("H".to_string(), 0, 1),
            _ => ("CNOT".to_string(), 0, 2),
        }
    };
    let np = if src.chance(1, 20) { src.below(3) } else { want_params };
    let nq = if src.chance(1, 24) { 1 + src.below(2) } else { want_qubits.max(1) };
    let parameters = (0..np).map(|_| param_expr(src, &own.params)).collect();
    let qubits = (0..nq).map(|_| Qubit::Variable(src.pick(&own.qubits).clone())).collect();
    let modifiers = if src.chance(1, 20) { vec![GateModifier::Dagger] } else { vec![] };
    Gate { name, parameters, qubits, modifiers }
}

pub fn generate(src: &mut Src, tier: Tier) -> Generated {
    let sigs: Vec<Sig> = (0..4)
        .map(|_| Sig {
            defined: src.chance(4, 5),
            sequence: src.chance(3, 4),
            params: (0..src.below(3)).map(|k| ["t", "u"][k].to_string()).collect(),
            qubits: (0..1 + src.below(2)).map(|k| ["p", "q"][k].to_string()).collect(),
        })
        .collect();
    let mut defs = vec![];
    let mut parts = vec![];
    for (k, s) in sigs.iter().enumerate() {
        if !s.defined {
            continue;
        }
        let spec = if s.sequence {
            // 1..3/4 elements; one definition in eight is empty (the API accepts that, the parser
            // cannot produce it): an invocation of it expands to nothing
            let n = if src.chance(1, 8) { 0 } else { 1 + src.below(tier.pick(3, 4)) };
            let gates: Vec<Gate> = (0..n).map(|_| element(src, &sigs, s)).collect();
            parts.push(Some((s.qubits.clone(), gates.clone())));
            GateSpecification::Sequence(DefGateSequence::try_new(s.qubits.clone(), gates).expect("generated sequence elements use only the formal qubits"))
        } else if src.chance(1, 2) {
            parts.push(None);
            GateSpecification::Permutation(vec![1, 0])
        } else {
            parts.push(None);
            GateSpecification::Matrix(vec![vec![gx::num(1.0, 0.0), gx::num(0.0, 0.0)], vec![gx::num(0.0, 0.0), gx::num(1.0, 0.0)]])
        };
        let params = if s.sequence { s.params.clone() } else { vec![] };
        defs.push(GateDefinition::new(NAMES[k].to_string(), params, spec).expect("valid gate name"));
    }
    let nbody = 1 + src.below(tier.pick(5, 8));
    let mut body = vec![];
    for _ in 0..nbody {
        let i = match src.weighted(&[7, 1, 1, 1, 1]) {
            0 => {
                let k = src.below(4);
                let s = &sigs[k];
                let np = if src.chance(1, 10) { src.below(3) } else if s.defined && s.sequence { s.params.len() } else { 0 };
                let nq = if src.chance(1, 10) { 1 + src.below(3) } else if s.defined && s.sequence { s.qubits.len() } else { 1 };
                let parameters = (0..np).map(|_| param_expr(src, &[])).collect();
                let first = src.below(3) as u64;
                let qubits = (0..nq)
                    .map(|j| if src.chance(1, 14) { Qubit::Variable("v".into()) } else { Qubit::Fixed((first + j as u64) % 4) })
                    .collect();
                let modifiers = if src.chance(1, 12) { vec![GateModifier::Dagger] } else { vec![] };
                Instruction::Gate(Gate { name: NAMES[k].to_string(), parameters, qubits, modifiers })
            }
            1 => Instruction::Gate(Gate::new("H", vec![], vec![Qubit::Fixed(src.below(3) as u64)], vec![]).unwrap()),
            2 => Instruction::Gate(Gate::new("RX", vec![gx::num(0.25, 0.0)], vec![Qubit::Fixed(1)], vec![]).unwrap()),
            3 => Instruction::Pragma(Pragma { name: "MARK".into(), arguments: vec![], data: None }),
            _ => Instruction::Measurement(quil_rs::instruction::Measurement { name: None, qubit: Qubit::Fixed(0), target: None }),
        };
        body.push(i);
    }
    let mut program = Program::new();
    // something of every other definition kind, to see that it is left alone
    for t in ["DECLARE theta REAL[2]", "DEFFRAME 0 \"a\":\n    SAMPLE-RATE: 1.0", "DEFCAL H 0:\n    PRAGMA cal", "DEFCIRCUIT CC q:\n    H q", "DEFWAVEFORM w:\n    1.0, 0.5", "PRAGMA EXTERN fx \"(x : INTEGER)\""] {
        program.add_instruction(crate::gen::defs::parse1(t));
    }
    for d in &defs {
        program.add_instruction(Instruction::GateDefinition(d.clone()));
    }
    for i in &body {
        program.add_instruction(i.clone());
    }
    let text = defs.iter().map(|d| d.to_quil_or_debug().replace('\n', " ⏎ ")).chain(body.iter().map(|i| i.to_quil_or_debug())).collect::<Vec<_>>().join(" ;; ");
    Generated { program, text, body, defs, parts }
}

// ---------------------------------------------------------------------------------------------
// reference expander

fn subst(e: &Expression, m: &HashMap<String, Expression>) -> Expression {
    match e {
        Expression::Variable(v) => m.get(v).cloned().unwrap_or_else(|| e.clone()),
        Expression::Infix(i) => gx::infix(subst(&i.left, m), i.operator, subst(&i.right, m)),
        Expression::Prefix(p) => gx::prefix(p.operator, subst(&p.expression, m)),
        Expression::FunctionCall(f) => gx::call(f.function, subst(&f.expression, m)),
        other => other.clone(),
    }
}

#[derive(Debug, Clone)]
pub enum Node {
    Kept,
    /// expansion of one invocation: one child per element of the sequence
    Expanded { name: String, children: Vec<(Instruction, Node)> },
}

impl Node {
    fn flat_len(&self) -> usize {
        match self {
            Node::Kept => 1,
            Node::Expanded { children, .. } => children.iter().map(|(_, c)| c.flat_len()).sum(),
        }
    }
}

pub struct Model<'a> {
    defs: HashMap<&'a str, (&'a GateDefinition, Option<(Vec<String>, Vec<Gate>)>)>,
    selected: BTreeSet<&'a str>,
}

impl<'a> Model<'a> {
    pub fn new(defs: &'a [GateDefinition], selected: BTreeSet<&'a str>, parts: &'a [Option<(Vec<String>, Vec<Gate>)>]) -> Self {
        Model { defs: defs.iter().zip(parts.iter()).map(|(d, p)| (d.name.as_str(), (d, p.clone()))).collect(), selected }
    }

    /// Expand one instruction; `chain` = names currently being expanded.
    fn expand_one(&self, i: &Instruction, chain: &mut Vec<String>, out: &mut Vec<Instruction>) -> Result<Node, String> {
        let Instruction::Gate(g) = i else {
            out.push(i.clone());
            return Ok(Node::Kept);
        };
        let Some((def, Some((formal_qubits, elements)))) = self.defs.get(g.name.as_str()) else {
            out.push(i.clone());
            return Ok(Node::Kept);
        };
        if !self.selected.contains(g.name.as_str()) {
            out.push(i.clone());
            return Ok(Node::Kept);
        }
        if def.parameters.len() != g.parameters.len() {
            return Err(format!("{}: {} parameters for {} formals", g.name, g.parameters.len(), def.parameters.len()));
        }
        if !g.modifiers.is_empty() {
            return Err(format!("{}: modifier on a selected sequence invocation", g.name));
        }
        if chain.contains(&g.name) {
            return Err(format!("cycle through {}", g.name));
        }
        if formal_qubits.len() != g.qubits.len() {
            return Err(format!("{}: {} qubits for {} formals", g.name, g.qubits.len(), formal_qubits.len()));
        }
        if g.qubits.iter().any(|q| !matches!(q, Qubit::Fixed(_))) {
            return Err(format!("{}: non-fixed qubit argument", g.name));
        }
        let pmap: HashMap<String, Expression> = def.parameters.iter().cloned().zip(g.parameters.iter().cloned()).collect();
        let qmap: HashMap<&String, &Qubit> = formal_qubits.iter().zip(g.qubits.iter()).collect();
        let mut children = vec![];
        chain.push(g.name.clone());
        for e in elements {
            let inst = Instruction::Gate(Gate {
                name: e.name.clone(),
                parameters: e.parameters.iter().map(|p| subst(p, &pmap)).collect(),
                qubits: e
                    .qubits
                    .iter()
                    .map(|q| match q {
                        Qubit::Variable(v) => qmap.get(v).map(|q| (*q).clone()).ok_or_else(|| format!("undefined formal qubit {v}")),
                        other => Err(format!("sequence element qubit {other:?} is not a formal")),
                    })
                    .collect::<Result<_, _>>()?,
                modifiers: e.modifiers.clone(),
            });
            let node = self.expand_one(&inst, chain, out);
            match node {
                Ok(n) => children.push((inst, n)),
                Err(e) => {
                    chain.pop();
                    return Err(e);
                }
            }
        }
        chain.pop();
        Ok(Node::Expanded { name: g.name.clone(), children })
    }

    pub fn expand(&self, body: &[Instruction]) -> Result<(Vec<Instruction>, Vec<Node>), String> {
        let mut out = vec![];
        let mut nodes = vec![];
        for i in body {
            nodes.push(self.expand_one(i, &mut vec![], &mut out)?);
        }
        Ok((out, nodes))
    }

    /// Names of the gate definitions that must remain: every non-sequence definition, every
    /// unselected sequence, and every sequence reachable from an unselected sequence.
    pub fn kept(&self, order: &[GateDefinition]) -> Vec<String> {
        let is_seq = |n: &str| self.defs.get(n).map(|(_, p)| p.is_some()).unwrap_or(false);
        let mut keep: BTreeSet<String> = BTreeSet::new();
        let mut stack: Vec<String> = order.iter().filter(|d| is_seq(&d.name) && !self.selected.contains(d.name.as_str())).map(|d| d.name.clone()).collect();
        while let Some(n) = stack.pop() {
            if !keep.insert(n.clone()) {
                continue;
            }
            if let Some((_, Some((_, elements)))) = self.defs.get(n.as_str()) {
                for e in elements {
                    if is_seq(&e.name) && !keep.contains(&e.name) {
                        stack.push(e.name.clone());
                    }
                }
            }
        }
        order.iter().filter(|d| !is_seq(&d.name) || keep.contains(&d.name)).map(|d| d.name.clone()).collect()
    }
}

fn texts(l: &[Instruction]) -> Vec<String> {
    l.iter().map(|i| i.to_quil_or_debug()).collect()
}

fn depth(n: &Node) -> usize {
    match n {
        Node::Kept => 0,
        Node::Expanded { children, .. } => 1 + children.iter().map(|(_, c)| depth(c)).max().unwrap_or(0),
    }
}

struct Decided<'a> {
    mask: usize,
    model: Result<(Vec<Instruction>, Vec<Node>), String>,
    kept: Vec<String>,
    selected: BTreeSet<&'a str>,
}

fn decide<'a>(g: &'a Generated, parts: &'a [Option<(Vec<String>, Vec<Gate>)>], mask: usize) -> Decided<'a> {
    let selected: BTreeSet<&str> = NAMES.iter().enumerate().filter(|(k, _)| mask >> k & 1 == 1).map(|(_, n)| *n).collect();
    let m = Model::new(&g.defs, selected.clone(), parts);
    Decided { mask, model: m.expand(&g.body), kept: m.kept(&g.defs), selected }
}

fn filter_of(mask: usize) -> impl Fn(&str) -> bool + Copy {
    move |name: &str| NAMES.iter().position(|n| *n == name).map(|k| mask >> k & 1 == 1).unwrap_or(true)
}

// ---------------------------------------------------------------------------------------------
// C20

pub struct C20Prop;
pub static C20: C20Prop = C20Prop;

fn c20_oracle(g: &Generated, out: &mut Outcome) -> Check {
    let parts = &g.parts;
    let nseq = parts.iter().filter(|p| p.is_some()).count();
    for mask in 0..16usize {
        let d = decide(g, parts, mask);
        let filter = filter_of(mask);
        let got = lib(|| g.program.clone().expand_defgate_sequences(filter))?;
        match (&d.model, got) {
            (Err(why), Ok(p)) => fail!(
                "c20:accepts-invalid-expansion",
                "filter {:?}: expansion must fail ({why}) but succeeded with body {:?}; program: {}",
                d.selected,
                texts(&p.body_instructions().cloned().collect::<Vec<_>>()),
                g.text
            ),
            (Err(_), Err(_)) => out.class("expansion-error"),
            (Ok(_), Err(e)) => fail!("c20:rejects-valid-expansion", "filter {:?}: expansion should succeed but fails: {e}; program: {}", d.selected, g.text),
            (Ok((want_body, nodes)), Ok(p)) => {
                let body: Vec<Instruction> = p.body_instructions().cloned().collect();
                if body != *want_body {
                    let sig = if body.len() != want_body.len() {
                        "c20:body-length"
                    } else if body.iter().zip(want_body).any(|(a, b)| matches!((a, b), (Instruction::Gate(x), Instruction::Gate(y)) if x.name == y.name && x.qubits != y.qubits)) {
                        "c20:qubit-substitution"
                    } else if body.iter().zip(want_body).any(|(a, b)| matches!((a, b), (Instruction::Gate(x), Instruction::Gate(y)) if x.name == y.name && x.parameters != y.parameters)) {
                        "c20:parameter-substitution"
                    } else {
                        "c20:body-differs"
                    };
                    fail!(sig, "filter {:?}: expanded body {:?}, expected {:?}; program: {}", d.selected, texts(&body), texts(want_body), g.text);
                }
                let got_defs: Vec<String> = p.gate_definitions.keys().cloned().collect();
                let mut a = got_defs.clone();
                let mut b = d.kept.clone();
                a.sort();
                b.sort();
                if a != b {
                    let sig = if a.len() > b.len() { "c20:kept-unneeded-definition" } else { "c20:dropped-needed-definition" };
                    fail!(sig, "filter {:?}: gate definitions kept {got_defs:?}, expected {:?}; program: {}", d.selected, d.kept, g.text);
                }
                for name in &got_defs {
                    ensure!(p.gate_definitions.get(name) == g.program.gate_definitions.get(name), "c20:definition-changed", "definition {name} changed");
                }
                ensure!(
                    p.calibrations == g.program.calibrations
                        && p.frames == g.program.frames
                        && p.memory_regions == g.program.memory_regions
                        && p.waveforms == g.program.waveforms
                        && p.circuits == g.program.circuits
                        && p.extern_pragma_map == g.program.extern_pragma_map,
                    "c20:other-definitions-changed",
                    "a non-gate definition changed during sequence expansion"
                );
                let deep = nodes.iter().map(depth).max().unwrap_or(0);
                if deep >= 1 {
                    out.class("expanded");
                }
                if deep >= 2 {
                    out.class("nested-expansion");
                }
                let proper = d.mask & ((1 << 4) - 1) != 15 && nseq >= 2 && d.selected.iter().any(|n| g.defs.iter().any(|x| x.name == **n));
                if deep >= 2 || (deep >= 1 && proper) {
                    out.nontrivial = true;
                }
                if d.kept.len() < g.defs.len() {
                    out.class("definition-removed");
                }
                if d.kept.iter().any(|n| d.selected.contains(n.as_str()) && parts[g.defs.iter().position(|x| x.name == *n).unwrap()].is_some()) {
                    out.class("selected-but-kept-by-reachability");
                }
            }
        }
    }
    Ok(())
}

impl Property for C20Prop {
    fn id(&self) -> &'static str {
        "C20"
    }
    fn rule(&self) -> &'static str {
        "random programs: names A..D each defined with probability 0.8, 3/4 of those as DEFGATE AS SEQUENCE with 0..2 parameters, 1..2 qubit parameters and 1..3 (quick) / 1..4 (thorough) elements (one definition in eight: no element at all, built through the API) that invoke A..D (60%) or RX/H/CNOT with parameter expressions over the formals, constants, pi and memory references, 5% wrong parameter count, 4% wrong qubit count, 5% DAGGER; the rest as matrix / permutation definitions; a body of 1..5 / 1..8 instructions, 65% invocations of A..D (10% wrong arity, 7% variable qubit, 8% DAGGER) among H, RX, PRAGMA, MEASURE; one definition of every other kind; all 16 filters over the four names per program. Non-trivial = some filter yields an expansion nested >= 2 deep, or an expansion under a proper-subset filter with >= 2 sequence definitions; distinct by program text."
    }
    fn max_words(&self) -> usize {
        700
    }
    fn cases(&self, tier: Tier) -> u64 {
        tier.pick(20_000, 400_000)
    }
    fn run(&self, src: &mut Src, ctx: &Ctx, out: &mut Outcome) -> Check {
        let g = generate(src, ctx.tier);
        out.set_key(&g.text);
        if ctx.render {
            out.render = Some(g.text.clone());
        }
        c20_oracle(&g, out)
    }
    fn floors(&self) -> Vec<(&'static str, f64)> {
        vec![("expanded", 0.3), ("nested-expansion", 0.08), ("expansion-error", 0.2), ("definition-removed", 0.2), ("selected-but-kept-by-reachability", 0.05)]
    }
    fn watchdog_s(&self) -> u64 {
        20
    }
}

// ---------------------------------------------------------------------------------------------
// C21

pub struct C21Prop;
pub static C21: C21Prop = C21Prop;

type Map<'a> = SourceMap<InstructionIndex, ExpansionResult<DefGateSequenceExpansion<'a>>>;

/// Check one level of the map: `sources` are the instructions the level maps from, `nodes` what the
/// reference expander did with each, `out` the flattened instructions the level's targets index
/// (relative to `out[0]`).
fn check_level(map: &Map<'_>, sources: &[Instruction], nodes: &[&Node], out_slice: &[Instruction], level: usize, ctx_text: &str) -> Check {
    let entries = map.entries();
    ensure!(
        entries.len() == sources.len(),
        if level == 0 { "c21:entry-count" } else { "c21:nested:entry-count" },
        "level {level}: {} entries for {} source instructions; {ctx_text}",
        entries.len(),
        sources.len()
    );
    let mut pos = 0usize;
    for (k, (en, node)) in entries.iter().zip(nodes.iter()).enumerate() {
        ensure!(en.source_location().0 == k, "c21:source-order", "level {level}: entry {k} has source index {}; {ctx_text}", en.source_location().0);
        match (en.target_location(), node) {
            (ExpansionResult::Unmodified(t), Node::Kept) => {
                ensure!(t.0 == pos, if level == 0 { "c21:unmodified-target" } else { "c21:nested:unmodified-target" }, "level {level}: source {k} is unmodified at target {} but the running position is {pos}; {ctx_text}", t.0);
                ensure!(out_slice.get(t.0) == Some(&sources[k]), "c21:unmodified-not-identical", "level {level}: unmodified source {k} does not equal the instruction at its target; {ctx_text}");
                pos += 1;
            }
            (ExpansionResult::Rewritten(x), Node::Expanded { children, .. }) => {
                let len = node.flat_len();
                let r = x.range();
                ensure!(
                    r.start.0 == pos && r.end.0 == pos + len,
                    if level == 0 { "c21:range" } else { "c21:nested:range" },
                    "level {level}: source {k} is rewritten to {}..{} but the invocation produced {len} gates starting at {pos}; {ctx_text}",
                    r.start.0,
                    r.end.0
                );
                // nested map: relative to the parent range start
                let child_sources: Vec<Instruction> = children.iter().map(|(i, _)| i.clone()).collect();
                let child_nodes: Vec<&Node> = children.iter().map(|(_, n)| n).collect();
                ensure!(pos + len <= out_slice.len(), "c21:range-out-of-bounds", "level {level}: range exceeds the output; {ctx_text}");
                check_level(x.nested_expansions(), &child_sources, &child_nodes, &out_slice[pos..pos + len], level + 1, ctx_text)?;
                pos += len;
            }
            (ExpansionResult::Unmodified(_), Node::Expanded { .. }) => fail!("c21:expanded-marked-unmodified", "level {level}: source {k} was expanded but its entry says unmodified; {ctx_text}"),
            (ExpansionResult::Rewritten(_), Node::Kept) => fail!("c21:unmodified-marked-rewritten", "level {level}: source {k} was kept but its entry says rewritten; {ctx_text}"),
        }
    }
    ensure!(pos == out_slice.len(), "c21:not-covering", "level {level}: entries cover {pos} of {} target instructions; {ctx_text}", out_slice.len());
    Ok(())
}

fn c21_oracle(g: &Generated, out: &mut Outcome) -> Check {
    let parts = &g.parts;
    for mask in 0..16usize {
        let d = decide(g, parts, mask);
        let filter = filter_of(mask);
        let plain = lib(|| g.program.clone().expand_defgate_sequences(filter))?;
        let mapped = lib(|| g.program.expand_defgate_sequences_with_source_map(filter))?;
        let (p1, (p2, map)) = match (plain, mapped) {
            (Ok(a), Ok(b)) => (a, b),
            (Err(_), Err(_)) => {
                out.class("expansion-error");
                continue;
            }
            (a, b) => fail!(
                "c21:entry-points-disagree-on-error",
                "filter {:?}: expand_defgate_sequences is {} but the source-map variant is {}; program: {}",
                d.selected,
                if a.is_ok() { "Ok" } else { "Err" },
                if b.is_ok() { "Ok" } else { "Err" },
                g.text
            ),
        };
        ensure!(p1 == p2, "c21:entry-points-differ", "filter {:?}: the two entry points give different programs; program: {}", d.selected, g.text);
        ensure!(lib(|| p1.to_instructions())? == lib(|| p2.to_instructions())?, "c21:entry-points-differ:listing", "filter {:?}: the two entry points list different instructions", d.selected);
        let Ok((want_body, nodes)) = &d.model else {
            // C20's business (the library accepted what the reference rejects)
            out.class("model-rejects");
            continue;
        };
        let body: Vec<Instruction> = p2.body_instructions().cloned().collect();
        if body != *want_body {
            out.class("body-differs-from-model");
            continue; // C20's business
        }
        let ctx_text = format!("filter {:?}; program: {}", d.selected, g.text);
        let node_refs: Vec<&Node> = nodes.iter().collect();
        check_level(&map, &g.body, &node_refs, &body, 0, &ctx_text)?;
        // inverse queries at the top level
        for (t, _) in body.iter().enumerate() {
            let sources = map.list_sources(&InstructionIndex(t));
            ensure!(sources.len() == 1, "c21:list-sources", "target {t} has {} sources; {ctx_text}", sources.len());
        }
        let deep = nodes.iter().map(depth).max().unwrap_or(0);
        if deep >= 1 {
            out.class("expanded");
        }
        if deep >= 2 {
            out.class("nested-expansion");
            out.nontrivial = true;
        }
        if deep >= 1 && mask != 15 {
            out.nontrivial = true;
        }
    }
    Ok(())
}

impl Property for C21Prop {
    fn id(&self) -> &'static str {
        "C21"
    }
    fn rule(&self) -> &'static str {
        "the generator of C20 (sequence definitions over A..D with nesting, cycles, arity and modifier misuse; bodies of invocations among other instructions; all 16 filters per program). Non-trivial = some filter yields an expansion nested >= 2 deep, or any expansion under a filter that is not 'everything'; distinct by program text."
    }
    fn max_words(&self) -> usize {
        700
    }
    fn cases(&self, tier: Tier) -> u64 {
        tier.pick(20_000, 400_000)
    }
    fn run(&self, src: &mut Src, ctx: &Ctx, out: &mut Outcome) -> Check {
        let g = generate(src, ctx.tier);
        out.set_key(&g.text);
        if ctx.render {
            out.render = Some(g.text.clone());
        }
        c21_oracle(&g, out)
    }
    fn floors(&self) -> Vec<(&'static str, f64)> {
        vec![("expanded", 0.3), ("nested-expansion", 0.08), ("expansion-error", 0.2)]
    }
    fn watchdog_s(&self) -> u64 {
        20
    }
}
