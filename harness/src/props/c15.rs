//! C15 — Gate modifiers, daggers and program unitaries compose correctly.
//!
//! Statement: "Adding DAGGER conjugate-transposes a gate's unitary. CONTROLLED adds a leading
//! control qubit and applies the base gate only when that qubit is 1, and FORKED on a leading
//! qubit selects the first or second half of the parameters. Every computed unitary is unitary, a
//! program's unitary is the product of its gates' unitaries in order, and the unitary of a dagger
//! program is the adjoint."
//!
//! Oracle: `model::unitary::modified` (recursion from the outermost = leftmost modifier, which
//! owns the first listed qubit; Quil spec §4.4) lifted with the model lifter, compared (1e-9) with
//! `Gate::to_unitary` for the gate built three ways (builder methods, `Gate::new` with the
//! modifier list, parsed text); metamorphic relations for dagger, programs and dagger programs.

use crate::engine::{lib, Check, Ctx, Outcome, Property, Src, Tier};
use crate::model::unitary::{self as mu, Mat, Modifier};
use crate::{ensure, fail};
use num_complex::Complex64;
use quil_rs::expression::Expression;
use quil_rs::instruction::{Gate, GateModifier, Instruction, Qubit};
use quil_rs::quil::Quil;
use quil_rs::Program;
use std::str::FromStr;

pub struct C15Prop;
pub static C15: C15Prop = C15Prop;

#[derive(Clone, Debug)]
struct GenGate {
    base: &'static str,
    base_qubits: Vec<u64>,
    /// outermost first
    modifiers: Vec<Modifier>,
    /// one extra qubit per CONTROLLED/FORKED, outermost first
    extra_qubits: Vec<u64>,
    /// full parameter list (base count × 2^forks), outermost fork splits in halves
    params: Vec<f64>,
}

impl GenGate {
    fn all_qubits(&self) -> Vec<u64> {
        self.extra_qubits.iter().chain(self.base_qubits.iter()).copied().collect()
    }
    fn model_local(&self) -> Option<Mat> {
        mu::modified(self.base, &self.params, &self.modifiers)
    }
    fn lib_modifier(m: Modifier) -> GateModifier {
        match m {
            Modifier::Dagger => GateModifier::Dagger,
            Modifier::Controlled => GateModifier::Controlled,
            Modifier::Forked => GateModifier::Forked,
        }
    }
    fn num(x: f64) -> Expression {
        Expression::Number(Complex64::new(x, 0.0))
    }
    /// `Gate::new` with the whole modifier list.
    fn build_direct(&self) -> Result<Gate, String> {
        Gate::new(
            self.base,
            self.params.iter().map(|p| Self::num(*p)).collect(),
            self.all_qubits().into_iter().map(Qubit::Fixed).collect(),
            self.modifiers.iter().map(|m| Self::lib_modifier(*m)).collect(),
        )
        .map_err(|e| e.to_string())
    }
    /// Builder methods, applied from the innermost modifier outwards.
    fn build_with_methods(&self) -> Result<Gate, String> {
        let nforks = self.modifiers.iter().filter(|m| **m == Modifier::Forked).count();
        let base_np = self.params.len() >> nforks;
        // parameters seen by the innermost gate: the first base_np; each enclosing fork appends the
        // alternative block that follows what has been consumed so far
        let mut g = Gate::new(
            self.base,
            self.params[..base_np].iter().map(|p| Self::num(*p)).collect(),
            self.base_qubits.iter().map(|q| Qubit::Fixed(*q)).collect(),
            vec![],
        )
        .map_err(|e| e.to_string())?;
        let mut consumed = base_np;
        let mut extra = self.extra_qubits.iter().rev();
        for m in self.modifiers.iter().rev() {
            g = match m {
                Modifier::Dagger => g.dagger(),
                Modifier::Controlled => g.controlled(Qubit::Fixed(*extra.next().unwrap())),
                Modifier::Forked => {
                    let alt: Vec<Expression> = self.params[consumed..2 * consumed].iter().map(|p| Self::num(*p)).collect();
                    consumed *= 2;
                    g.forked(Qubit::Fixed(*extra.next().unwrap()), alt).map_err(|e| e.to_string())?
                }
            };
        }
        Ok(g)
    }
    fn text(&self) -> String {
        let mut s = String::new();
        for m in &self.modifiers {
            s.push_str(match m {
                Modifier::Dagger => "DAGGER ",
                Modifier::Controlled => "CONTROLLED ",
                Modifier::Forked => "FORKED ",
            });
        }
        s.push_str(self.base);
        if !self.params.is_empty() {
            s.push('(');
            s.push_str(&self.params.iter().map(|p| format!("{p:?}")).collect::<Vec<_>>().join(", "));
            s.push(')');
        }
        for q in self.all_qubits() {
            s.push_str(&format!(" {q}"));
        }
        s
    }
}

const BASES: [(&str, usize, usize); 12] = [
    ("X", 1, 0),
    ("H", 1, 0),
    ("S", 1, 0),
    ("T", 1, 0),
    ("Y", 1, 0),
    ("RX", 1, 1),
    ("RY", 1, 1),
    ("RZ", 1, 1),
    ("PHASE", 1, 1),
    ("CNOT", 2, 0),
    ("ISWAP", 2, 0),
    ("CPHASE", 2, 1),
];

fn gen_gate(src: &mut Src, n_qubits: u64, max_mods: usize) -> GenGate {
    let (base, k, np) = *src.pick(&BASES);
    let mut free: Vec<u64> = (0..n_qubits).collect();
    let take = |src: &mut Src, free: &mut Vec<u64>| free.remove(src.below(free.len()));
    let base_qubits: Vec<u64> = (0..k).map(|_| take(src, &mut free)).collect();
    let nmods = src.below(max_mods + 1);
    let mut modifiers = vec![];
    let mut extra_qubits = vec![];
    let mut forks = 0;
    for _ in 0..nmods {
        let m = *src.pick(&[Modifier::Dagger, Modifier::Controlled, Modifier::Forked]);
        match m {
            Modifier::Dagger => modifiers.push(m),
            _ => {
                if free.is_empty() {
                    modifiers.push(Modifier::Dagger);
                } else {
                    extra_qubits.push(take(src, &mut free));
                    if m == Modifier::Forked {
                        forks += 1;
                    }
                    modifiers.push(m);
                }
            }
        }
    }
    let params: Vec<f64> = (0..(np << forks)).map(|_| if src.chance(1, 4) { std::f64::consts::FRAC_PI_2 } else { src.real(-3.0, 3.0) }).collect();
    GenGate { base, base_qubits, modifiers, extra_qubits, params }
}

fn lib_unitary(g: &Gate, n: u64, what: &str) -> Result<Mat, crate::engine::Failure> {
    match lib(|| g.clone().to_unitary(n))? {
        Ok(m) => Ok(mu::from_ndarray(&m)),
        Err(e) => Err(crate::engine::Failure { sig: format!("c15:error:{what}"), msg: format!("to_unitary of {} failed: {e}", g.to_quil_or_debug()) }),
    }
}

fn stack_kind(g: &GenGate) -> &'static str {
    let c = g.modifiers.contains(&Modifier::Controlled);
    let f = g.modifiers.contains(&Modifier::Forked);
    match (c, f) {
        (true, true) => "controlled+forked",
        (true, false) => "controlled",
        (false, true) => "forked",
        (false, false) => {
            if g.modifiers.is_empty() {
                "plain"
            } else {
                "dagger-only"
            }
        }
    }
}

fn check_single(g: &GenGate, n: u64, _out: &mut Outcome) -> Check {
    let local = match g.model_local() {
        Some(m) => m,
        None => fail!("harness:c15-model", "model cannot build {g:?}"),
    };
    let expected = mu::lift(&local, &g.all_qubits(), n);
    let kind = stack_kind(g);
    let direct = g.build_direct().map_err(|e| crate::engine::Failure { sig: "harness:c15-build".into(), msg: e })?;
    let via_methods = g.build_with_methods().map_err(|e| crate::engine::Failure { sig: "c15:builder-error".into(), msg: e })?;
    let text = g.text();
    let parsed = match lib(|| Instruction::from_str(&text))? {
        Ok(Instruction::Gate(pg)) => pg,
        other => fail!("c15:parse", "{text:?} did not parse to a gate: {other:?}"),
    };
    for (what, gate) in [("direct", &direct), ("methods", &via_methods), ("parsed", &parsed)] {
        let u = lib_unitary(gate, n, what)?;
        ensure!(u.n == expected.n, "c15:shape", "dimension {} for n={n}", u.n);
        let d = u.max_diff(&expected);
        ensure!(
            d <= 1e-9,
            format!("c15:modifier-semantics:{kind}"),
            "{} (built via {what}) in {n} qubits differs from the modifier semantics by {d:.3e}",
            gate.to_quil_or_debug()
        );
        ensure!(u.is_unitary(1e-9), "c15:not-unitary", "{} is not unitary", gate.to_quil_or_debug());
    }
    // g.dagger() is the adjoint
    let ud = lib_unitary(&direct.clone().dagger(), n, "dagger")?;
    let d = ud.max_diff(&expected.adjoint());
    ensure!(d <= 1e-9, "c15:dagger", "U(g.dagger()) differs from U(g)^dagger by {d:.3e} for {}", direct.to_quil_or_debug());
    let prod = ud.mul(&expected);
    ensure!(prod.max_diff(&Mat::eye(expected.n)) <= 1e-9, "c15:dagger-inverse", "U^dagger U != I for {}", direct.to_quil_or_debug());
    Ok(())
}

impl Property for C15Prop {
    fn id(&self) -> &'static str {
        "C15"
    }
    fn rule(&self) -> &'static str {
        "random: a base gate from {X,H,S,T,Y,RX,RY,RZ,PHASE,CNOT,ISWAP,CPHASE} on distinct qubits of an n<=5 qubit space with a modifier stack of depth 0..4 over {DAGGER, CONTROLLED, FORKED} (extra qubits distinct, parameter count doubled per FORKED), built three ways (builder methods, modifier list, parsed text); plus gate-only programs of 1..6 such gates (depth <= 2) on n<=4 qubits and their dagger. Non-trivial = modifier depth >= 1 or program length >= 2; distinct by rendered text."
    }
    fn max_words(&self) -> usize {
        200
    }
    fn cases(&self, tier: Tier) -> u64 {
        tier.pick(30_000, 600_000)
    }
    fn run(&self, src: &mut Src, ctx: &Ctx, out: &mut Outcome) -> Check {
        if src.chance(1, 2) {
            // single modified gate
            let n = 2 + src.below(4) as u64; // 2..=5
            let g = gen_gate(src, n, 4);
            let text = g.text();
            out.set_key(&(n, &text));
            out.nontrivial = !g.modifiers.is_empty();
            out.class(stack_kind(&g));
            if g.modifiers.len() >= 3 {
                out.class("depth>=3");
            }
            if ctx.render {
                out.render = Some(format!("{text}   (n={n})"));
            }
            check_single(&g, n, out)
        } else {
            // program
            let n = 1 + src.below(4) as u64; // 1..=4
            let len = 1 + src.below(6);
            let gates: Vec<GenGate> = (0..len).map(|_| gen_gate(src, n.max(2), 2)).collect();
            let n = n.max(2);
            let texts: Vec<String> = gates.iter().map(|g| g.text()).collect();
            out.set_key(&(n, &texts));
            out.nontrivial = len >= 2;
            out.class("program");
            if ctx.render {
                out.render = Some(format!("{}   (n={n})", texts.join("; ")));
            }
            let mut expected = Mat::eye(1 << n);
            let mut instrs = vec![];
            for g in &gates {
                let local = g.model_local().ok_or_else(|| crate::engine::Failure { sig: "harness:c15-model".into(), msg: format!("{g:?}") })?;
                expected = mu::lift(&local, &g.all_qubits(), n).mul(&expected);
                instrs.push(Instruction::Gate(g.build_direct().map_err(|e| crate::engine::Failure { sig: "harness:c15-build".into(), msg: e })?));
            }
            let program = Program::from_instructions(instrs);
            let got = match lib(|| program.to_unitary(n))? {
                Ok(m) => mu::from_ndarray(&m),
                Err(e) => fail!("c15:program-error", "Program::to_unitary failed: {e}"),
            };
            let d = got.max_diff(&expected);
            let mixed = gates.iter().any(|g| stack_kind(g) == "controlled+forked");
            ensure!(
                d <= 1e-9,
                if mixed { "c15:modifier-semantics:controlled+forked" } else { "c15:program-product" },
                "program unitary differs from the ordered product of its gates by {d:.3e}: {}",
                texts.join("; ")
            );
            ensure!(got.is_unitary(1e-9), "c15:not-unitary", "program unitary is not unitary");
            let dag = match lib(|| program.dagger())? {
                Ok(p) => p,
                Err(e) => fail!("c15:dagger-program-error", "Program::dagger failed: {e}"),
            };
            let gd = match lib(|| dag.to_unitary(n))? {
                Ok(m) => mu::from_ndarray(&m),
                Err(e) => fail!("c15:dagger-program-error", "to_unitary of the dagger program failed: {e}"),
            };
            let d = gd.max_diff(&expected.adjoint());
            ensure!(d <= 1e-9, if mixed { "c15:modifier-semantics:controlled+forked" } else { "c15:program-dagger" }, "dagger program's unitary differs from the adjoint by {d:.3e}: {}", texts.join("; "));
            Ok(())
        }
    }
    fn floors(&self) -> Vec<(&'static str, f64)> {
        vec![("controlled+forked", 0.03), ("forked", 0.03), ("controlled", 0.03), ("program", 0.3)]
    }
}
