//! Direct checks of the private dependency queue through the cfg(rigetti_quil_rs_verif) hook,
//! against the reference bookkeeping "last writer + reads since":
//!
//! * a read depends on the last writer (if any) and joins the pending reads;
//! * a write depends on the last writer and on every read since, clears them and becomes the writer;
//! * at the end the pending dependencies are the reads since the last write plus the last writer.
//!
//! For memory, Write and Capture are writers and there is no initial writer; for frames, "using"
//! is the writer kind, "blocking" the reader kind, and the block start is the initial writer.

use crate::engine::{lib, Check};
use crate::ensure;
use quil_rs::program::scheduling::verif;
use quil_rs::program::scheduling::{MemoryAccessType, ScheduledGraphNode};
use std::collections::BTreeSet;

fn key(n: ScheduledGraphNode) -> i64 {
    match n {
        ScheduledGraphNode::BlockStart => -1,
        ScheduledGraphNode::InstructionIndex(i) => i as i64,
        ScheduledGraphNode::BlockEnd => i64::MAX,
    }
}

fn kind_key(k: MemoryAccessType) -> u8 {
    match k {
        MemoryAccessType::Read => 0,
        MemoryAccessType::Write => 1,
        MemoryAccessType::Capture => 2,
    }
}

/// `steps[i] = (node index, access 0=read 1=write 2=capture)`.
pub fn check_memory(steps: &[(usize, u8)]) -> Check {
    let accesses: Vec<(ScheduledGraphNode, MemoryAccessType)> = steps
        .iter()
        .map(|(n, a)| {
            (
                ScheduledGraphNode::InstructionIndex(*n),
                match a {
                    0 => MemoryAccessType::Read,
                    1 => MemoryAccessType::Write,
                    _ => MemoryAccessType::Capture,
                },
            )
        })
        .collect();
    let (got_steps, got_pending) = lib(|| verif::memory_queue(&accesses))?;
    // reference
    let mut writer: Option<(u8, i64)> = None;
    let mut reads: BTreeSet<(u8, i64)> = BTreeSet::new();
    for (i, (n, a)) in steps.iter().enumerate() {
        let mut expected: BTreeSet<(u8, i64)> = writer.into_iter().collect();
        if *a == 0 {
            reads.insert((0, *n as i64));
        } else {
            expected.extend(reads.iter().copied());
            reads.clear();
            writer = Some((*a, *n as i64));
        }
        let got: BTreeSet<(u8, i64)> = got_steps[i].iter().map(|(k, n)| (kind_key(*k), key(*n))).collect();
        ensure!(
            got == expected,
            "c23:queue-step",
            "memory queue, accesses {steps:?}: step {i} reported dependencies {got:?}, reference {expected:?}"
        );
    }
    let mut expected: BTreeSet<(u8, i64)> = reads;
    expected.extend(writer);
    let got: BTreeSet<(u8, i64)> = got_pending.iter().map(|(k, n)| (kind_key(*k), key(*n))).collect();
    ensure!(got == expected, "c23:queue-pending", "memory queue, accesses {steps:?}: pending {got:?}, reference {expected:?}");
    Ok(())
}

/// `steps[i] = (node index, uses)`.
pub fn check_frame(steps: &[(usize, bool)]) -> Check {
    let accesses: Vec<(ScheduledGraphNode, bool)> = steps.iter().map(|(n, u)| (ScheduledGraphNode::InstructionIndex(*n), *u)).collect();
    let (got_steps, got_pending) = lib(|| verif::frame_queue(&accesses))?;
    let mut writer: i64 = -1; // block start
    let mut reads: BTreeSet<i64> = BTreeSet::new();
    for (i, (n, uses)) in steps.iter().enumerate() {
        let mut expected: BTreeSet<i64> = [writer].into_iter().collect();
        if *uses {
            expected.extend(reads.iter().copied());
            reads.clear();
            writer = *n as i64;
        } else {
            reads.insert(*n as i64);
        }
        let got: BTreeSet<i64> = got_steps[i].iter().map(|n| key(*n)).collect();
        ensure!(got == expected, "c24:queue-step", "frame queue, accesses {steps:?}: step {i} reported {got:?}, reference {expected:?}");
    }
    let mut expected = reads;
    expected.insert(writer);
    let got: BTreeSet<i64> = got_pending.iter().map(|n| key(*n)).collect();
    ensure!(got == expected, "c24:queue-pending", "frame queue, accesses {steps:?}: pending {got:?}, reference {expected:?}");
    Ok(())
}

/// Decode a sequence from an integer code: per step 3 (or 2) access kinds × "same node as the
/// previous step" flag.
pub fn decode(mut code: u64, len: usize, kinds: u64) -> Vec<(usize, u8)> {
    let mut v = vec![];
    let mut node = 0usize;
    for i in 0..len {
        let k = (code % kinds) as u8;
        code /= kinds;
        let same = code % 2 == 1;
        code /= 2;
        if i > 0 && !same {
            node += 1;
        }
        v.push((node, k));
    }
    v
}
