//! C14 — Standard gate unitaries match the Quil specification.
//!
//! Statement: "For every standard Quil gate with constant real parameters, applied to distinct
//! fixed qubits in an n-qubit space, the computed unitary equals that gate's matrix from the Quil
//! specification. The matrix is lifted with qubit 0 as the least significant bit. This covers I,
//! X, Y, Z, H, S, T, CNOT, CCNOT, CZ, SWAP, CSWAP, ISWAP, RX, RY, RZ, PHASE, CPHASE, CPHASE00,
//! CPHASE01, CPHASE10 and PSWAP."
//!
//! Oracle: `model::unitary::standard` (typed from spec §4.3) lifted by bit manipulation, compared
//! entrywise (1e-9) with `Gate::to_unitary(n)` and with `Program::to_unitary(n)` of the one-gate
//! program. Placements are enumerated, parameters are sampled.

use crate::engine::{lib, Case, Check, Ctx, Outcome, Property, Src, Tier};
use crate::model::unitary::{self as mu, Mat};
use crate::{ensure, fail};
use num_complex::Complex64;
use quil_rs::expression::Expression;
use quil_rs::instruction::{Gate, Instruction, Qubit};
use quil_rs::Program;

pub struct C14Prop;
pub static C14: C14Prop = C14Prop;

const SPECIAL: [f64; 7] = [
    0.0,
    std::f64::consts::PI,
    -std::f64::consts::PI,
    std::f64::consts::FRAC_PI_2,
    -std::f64::consts::FRAC_PI_2,
    std::f64::consts::FRAC_PI_4,
    1.0,
];

fn max_n(tier: Tier) -> u64 {
    tier.pick(4, 5)
}

/// Parameter forms: plain number, or an expression that folds to the same constant.
fn param_expr(theta: f64, form: usize) -> Expression {
    let num = |x: f64| Expression::Number(Complex64::new(x, 0.0));
    match form {
        0 => num(theta),
        1 => crate::gen::expr::infix(num(theta / 2.0), quil_rs::expression::InfixOperator::Star, num(2.0)),
        2 => crate::gen::expr::infix(
            crate::gen::expr::infix(num(theta), quil_rs::expression::InfixOperator::Slash, Expression::PiConstant()),
            quil_rs::expression::InfixOperator::Star,
            Expression::PiConstant(),
        ),
        _ => crate::gen::expr::prefix(quil_rs::expression::PrefixOperator::Minus, num(-theta)),
    }
}

pub fn check_gate(gi: usize, n: u64, placement: &[u64], theta: f64, form: usize, out: &mut Outcome) -> Check {
    let (name, k, np) = mu::STANDARD[gi];
    debug_assert_eq!(k, placement.len());
    let params = if np == 1 { vec![param_expr(theta, form)] } else { vec![] };
    let qubits: Vec<Qubit> = placement.iter().map(|q| Qubit::Fixed(*q)).collect();
    let gate = match Gate::new(name, params, qubits, vec![]) {
        Ok(g) => g,
        Err(e) => fail!("harness:c14-gate", "Gate::new failed: {e}"),
    };
    let expected = mu::lift(&mu::standard(name, theta).unwrap(), placement, n);
    let got = match lib(|| gate.clone().to_unitary(n))? {
        Ok(m) => mu::from_ndarray(&m),
        Err(e) => fail!(format!("c14:error:{name}"), "{name} {placement:?} in {n} qubits: to_unitary failed: {e}"),
    };
    ensure!(got.n == expected.n, format!("c14:shape:{name}"), "wrong dimension {} for n={n}", got.n);
    let diff = got.max_diff(&expected);
    if diff > 1e-9 {
        // separate "the table entry is wrong" from "the lifting is wrong"
        let own = lib(|| gate_own_matrix(name, theta, k))?;
        let table_wrong = own.map(|m| m.max_diff(&mu::standard(name, theta).unwrap()) > 1e-9).unwrap_or(false);
        let kind = if table_wrong { "matrix" } else { "lifting" };
        fail!(
            format!("c14:{kind}:{name}"),
            "{name}({theta}) on qubits {placement:?} in a {n}-qubit space differs from the specification by {diff:.3e} ({kind})"
        );
    }
    // the same through a one-instruction program
    let program = Program::from_instructions(vec![Instruction::Gate(gate.clone())]);
    match lib(|| program.to_unitary(n))? {
        Ok(m) => {
            let d = mu::from_ndarray(&m).max_diff(&expected);
            ensure!(d <= 1e-9, format!("c14:program:{name}"), "Program::to_unitary of the single gate differs by {d:.3e}");
        }
        Err(e) => fail!(format!("c14:program-error:{name}"), "Program::to_unitary failed: {e}"),
    }
    out.nontrivial = true;
    Ok(())
}

/// The gate's own matrix as the library computes it on the identity placement.
fn gate_own_matrix(name: &str, theta: f64, k: usize) -> Option<Mat> {
    let (_, _, np) = mu::STANDARD.iter().find(|(n, _, _)| *n == name)?;
    let params = if *np == 1 { vec![Expression::Number(Complex64::new(theta, 0.0))] } else { vec![] };
    // first listed qubit most significant: qubits k-1, …, 0
    let qubits: Vec<Qubit> = (0..k as u64).rev().map(Qubit::Fixed).collect();
    let mut g = Gate::new(name, params, qubits, vec![]).ok()?;
    g.to_unitary(k as u64).ok().map(|m| mu::from_ndarray(&m))
}

impl Property for C14Prop {
    fn id(&self) -> &'static str {
        "C14"
    }
    fn rule(&self) -> &'static str {
        "enumerated: the 22 standard gates x every n in k..=4 (quick) / 5 (thorough) x every injective placement of the gate's k qubits into n x parameter in {0, pi, -pi, pi/2, -pi/2, pi/4, 1} (parameterized gates) ; random: the same with parameters uniform in [-2pi, 2pi] and four spellings of the parameter (number, t/2*2, t/pi*pi, -(-t)). Every case is non-trivial; distinct by (gate, n, placement, parameter bits, spelling)."
    }
    fn max_words(&self) -> usize {
        8
    }
    fn cases(&self, tier: Tier) -> u64 {
        tier.pick(20_000, 400_000)
    }
    fn run(&self, src: &mut Src, ctx: &Ctx, out: &mut Outcome) -> Check {
        let gi = src.below(mu::STANDARD.len());
        let (name, k, np) = mu::STANDARD[gi];
        let n = k as u64 + src.below((max_n(ctx.tier) - k as u64 + 1) as usize) as u64;
        let pls = mu::placements(k, n);
        let pi = src.below(pls.len());
        let (theta, form) = if np == 1 {
            let special = src.below(SPECIAL.len() * 3);
            let t = if special < SPECIAL.len() { SPECIAL[special] } else { src.real(-2.0 * std::f64::consts::PI, 2.0 * std::f64::consts::PI) };
            (t, src.below(4))
        } else {
            (0.0, 0)
        };
        out.key = crate::engine::hash_of(&(gi, n, pi, theta.to_bits(), form));
        out.class(if k == 1 {
            "1q"
        } else if k == 2 {
            "2q"
        } else {
            "3q"
        });
        if ctx.render {
            out.render = Some(format!("{name}({theta}; spelling {form}) on qubits {:?} in {n} qubits", pls[pi]));
        }
        check_gate(gi, n, &pls[pi], theta, form, out)
    }
    fn enumerate(&self, tier: Tier, shard: u64, nshards: u64, f: &mut dyn FnMut(Case) -> bool) {
        let mut counter = 0u64;
        for gi in 0..mu::STANDARD.len() {
            let (_, k, np) = mu::STANDARD[gi];
            for n in k as u64..=max_n(tier) {
                let npl = mu::placements(k, n).len();
                for pi in 0..npl {
                    let nparams = if np == 1 { SPECIAL.len() } else { 1 };
                    for s in 0..nparams {
                        counter += 1;
                        if counter % nshards != shard {
                            continue;
                        }
                        // direct words follow the order of `run`
                        let mut w = vec![gi as u32, (n - k as u64) as u32, pi as u32];
                        if np == 1 {
                            w.push(s as u32);
                            w.push(0);
                        }
                        if !f(Case::direct(w)) {
                            return;
                        }
                    }
                }
            }
        }
    }
    fn exhaustive_part(&self, tier: Tier) -> Option<String> {
        Some(format!("all standard gates x all injective placements into n <= {} qubits x 7 special parameters", max_n(tier)))
    }
}
