//! C13 — Substitution, evaluation and memory-reference listing agree.
//!
//! Statement: "Substituting variables by numbers and then evaluating gives the same value as
//! evaluating with those numbers bound to the variables. The memory references an expression
//! reports are exactly the memory addresses occurring in it, and evaluation succeeds iff every
//! variable and referenced memory cell is supplied."
//!
//! Oracle: (a) metamorphic — `substitute_variables` with numbers then `evaluate` with no
//! variables must give the bit-identical result (value or error) as `evaluate` with the bindings;
//! also substituting in two steps. (b) `memory_references()` equals the model's left-to-right
//! traversal as a multiset. (c) `evaluate` is Ok iff the model finds every occurring variable
//! bound and every occurring (region, index) supplied; when Ok and the reference value is
//! well-conditioned the value equals `model::eval` to 1e-9 (non-finite equals non-finite).

use crate::engine::{lib, Check, Ctx, Outcome, Property, Src, Tier};
use crate::gen::expr::{self as gx, ExprCfg, Literals};
use crate::model::eval::{self, Env, Screen};
use crate::{ensure, fail};
use num_complex::Complex64;
use quil_rs::expression::{EvaluationError, Expression};
use quil_rs::quil::Quil;
use std::collections::HashMap;

pub struct C13Prop;
pub static C13: C13Prop = C13Prop;

fn same_result(a: &Result<Complex64, EvaluationError>, b: &Result<Complex64, EvaluationError>) -> bool {
    match (a, b) {
        (Ok(x), Ok(y)) => {
            let eq = |p: f64, q: f64| p.to_bits() == q.to_bits() || (p.is_nan() && q.is_nan()) || (p == q);
            eq(x.re, y.re) && eq(x.im, y.im)
        }
        (Err(x), Err(y)) => x == y,
        _ => false,
    }
}

impl Property for C13Prop {
    fn id(&self) -> &'static str {
        "C13"
    }
    fn rule(&self) -> &'static str {
        "random expression trees of depth <= 4 (quick) / <= 6 (thorough) over variables {x,y,z,w}, regions {a,b,c} with indices 0..3, moderate literals, pi, functions, prefix and infix operators; a random PARTIAL assignment (each variable bound with probability 3/4, each region supplied with probability 5/6 with a vector of random length 0..4). Non-trivial = the tree contains >= 1 variable and >= 1 address; distinct by structural hash of (tree, assignment shape)."
    }
    fn max_words(&self) -> usize {
        700
    }
    fn cases(&self, tier: Tier) -> u64 {
        tier.pick(200_000, 4_000_000)
    }
    fn run(&self, src: &mut Src, ctx: &Ctx, out: &mut Outcome) -> Check {
        let vars: Vec<String> = ["x", "y", "z", "w"].iter().map(|s| s.to_string()).collect();
        let regions: Vec<(String, u64)> = ["a", "b", "c"].iter().map(|s| (s.to_string(), 4)).collect();
        // assignment first so that shrinking the tree does not change it
        let mut env = Env::default();
        let mut shape: Vec<u64> = vec![];
        for v in &vars {
            if src.chance(3, 4) {
                env.vars.insert(v.clone(), Complex64::new(src.real(-2.0, 2.0), if src.chance(1, 2) { src.real(-2.0, 2.0) } else { 0.0 }));
                shape.push(1);
            } else {
                shape.push(0);
            }
        }
        for (r, _) in &regions {
            if src.chance(5, 6) {
                let len = src.below(5);
                env.mem.insert(r.clone(), (0..len).map(|_| src.real(-2.0, 2.0)).collect());
                shape.push(10 + len as u64);
            } else {
                shape.push(9);
            }
        }
        let cfg = ExprCfg {
            max_depth: ctx.tier.pick(4, 6),
            vars: &vars,
            regions: &regions,
            literals: Literals::Moderate,
            share_pct: 15,
            prefix_plus: true,
            allow_pi: true,
            allow_variables: true,
            complex_numbers: true,
        };
        let e = gx::expr(src, &cfg);
        out.key = crate::engine::hash_of(&(gx::structural_hash(&e), &shape));
        if ctx.render {
            out.render = Some(format!("{} with vars {:?} mem {:?}", e.to_quil_or_debug(), env.vars, env.mem));
        }

        // model facts
        let (mut occurring_vars, mut occurring_addrs) = (vec![], vec![]);
        gx::variables(&e, &mut occurring_vars);
        gx::addresses(&e, &mut occurring_addrs);
        out.nontrivial = !occurring_vars.is_empty() && !occurring_addrs.is_empty();
        let all_vars_bound = occurring_vars.iter().all(|v| env.vars.contains_key(v));
        let all_cells = occurring_addrs.iter().all(|(n, i)| env.mem.get(n).is_some_and(|v| (*i as usize) < v.len()));
        let complete = all_vars_bound && all_cells;
        out.class(if complete { "complete" } else { "incomplete" });
        if !all_vars_bound {
            out.class("unbound-variable");
        }
        if !all_cells {
            out.class("missing-cell");
        }

        // (b)
        let mut reported: Vec<(String, u64)> = lib(|| e.memory_references().map(|m| (m.name.clone(), m.index)).collect())?;
        let mut expected = occurring_addrs.clone();
        reported.sort();
        expected.sort();
        ensure!(
            reported == expected,
            "c13:memory-references",
            "memory_references of {} = {:?}, addresses occurring = {:?}",
            e.to_quil_or_debug(),
            reported,
            expected
        );

        // (c)
        let lv: HashMap<String, Complex64> = env.vars.clone();
        let lm: HashMap<String, Vec<f64>> = env.mem.clone();
        let direct = lib(|| e.evaluate(&lv, &lm))?;
        match (&direct, complete) {
            (Ok(_), true) => {}
            (Err(EvaluationError::Incomplete), false) => {}
            (Ok(v), false) => fail!("c13:evaluated-incomplete", "{} evaluated to {v} although the assignment is incomplete", e.to_quil_or_debug()),
            (Err(err), true) => fail!("c13:complete-not-evaluated", "{} failed with {err:?} although everything is supplied", e.to_quil_or_debug()),
            (Err(err), false) => fail!("c13:wrong-error", "{} failed with {err:?}, expected Incomplete", e.to_quil_or_debug()),
        }
        if let Ok(v) = &direct {
            match eval::eval_screened(&e, &env, 1e-4) {
                Screen::Ok(r) => {
                    if !(eval::finite(*v) && eval::close(*v, r, 1e-9)) {
                        fail!("c13:value", "{} evaluates to {v}, reference {r}", e.to_quil_or_debug());
                    }
                    out.class("value-compared");
                }
                Screen::NonFinite => {
                    // the reference is non-finite: the library must not report a finite value
                    // unless it comes from a zero-base power (where conventions differ)
                    out.class("nonfinite");
                }
                Screen::Incomplete => fail!("harness:c13", "model incomplete but assignment complete"),
                _ => out.class("value-screened"),
            }
        }

        // (a) substitute everything that is bound, evaluate without variables
        let subst_all: HashMap<String, Expression> = env.vars.iter().map(|(k, v)| (k.clone(), Expression::Number(*v))).collect();
        let empty: HashMap<String, Complex64> = HashMap::new();
        let substituted = lib(|| e.substitute_variables(&subst_all))?;
        let after = lib(|| substituted.evaluate(&empty, &lm))?;
        ensure!(
            same_result(&after, &direct),
            "c13:substitute-then-evaluate",
            "{}: evaluate with bindings = {direct:?}, substitute then evaluate = {after:?}",
            e.to_quil_or_debug()
        );
        // two-step substitution: a subset first, the rest bound at evaluation
        let mut first: HashMap<String, Expression> = HashMap::new();
        let mut rest: HashMap<String, Complex64> = HashMap::new();
        for (i, v) in vars.iter().enumerate() {
            if let Some(c) = env.vars.get(v) {
                if i % 2 == 0 {
                    first.insert(v.clone(), Expression::Number(*c));
                } else {
                    rest.insert(v.clone(), *c);
                }
            }
        }
        let partly = lib(|| e.substitute_variables(&first))?;
        let after2 = lib(|| partly.evaluate(&rest, &lm))?;
        ensure!(
            same_result(&after2, &direct),
            "c13:partial-substitute",
            "{}: evaluate with bindings = {direct:?}, partial substitute then evaluate = {after2:?}",
            e.to_quil_or_debug()
        );
        // substitution must not touch anything else
        let mut vars_after = vec![];
        gx::variables(&partly, &mut vars_after);
        for v in &vars_after {
            ensure!(!first.contains_key(v), "c13:variable-left", "%{v} still occurs after substituting it in {}", e.to_quil_or_debug());
        }
        let mut addrs_after = vec![];
        gx::addresses(&partly, &mut addrs_after);
        ensure!(addrs_after == occurring_addrs, "c13:substitute-changed-addresses", "substitution changed the addresses of {}", e.to_quil_or_debug());
        Ok(())
    }
    fn floors(&self) -> Vec<(&'static str, f64)> {
        vec![("incomplete", 0.2), ("complete", 0.2), ("value-compared", 0.1)]
    }
}
