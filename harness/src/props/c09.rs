//! C09 — All instruction views of a program agree.
//!
//! Statement clauses checked:
//!  (a) "the copying and consuming instruction listings return the same sequence"
//!      — `p.to_instructions() == p.clone().into_instructions()`.
//!  (b) "Rebuilding a program from that sequence gives an equal program with identical
//!      serialization" — for both listings.
//!  (c) "The body keeps the order in which instructions were added" — `body_instructions()`,
//!      `into_body_instructions()` and the body part of the listing equal the reference body.
//!  (d) "each keyed definition keeps only its last value" — per kind, the listing holds exactly
//!      the reference map's values (compared as sets; order is C08's clause).

use crate::engine::{lib, Check, Ctx, Outcome, Property, Src, Tier};
use crate::gen::defs::{self, Item, Kind, Model, SeqCfg, DEF_KINDS};
use crate::{ensure, fail};
use quil_rs::instruction::Instruction;
use quil_rs::quil::Quil;
use quil_rs::Program;

pub struct C09Prop;
pub static C09: C09Prop = C09Prop;

fn texts(l: &[Instruction]) -> Vec<String> {
    l.iter().map(|i| i.to_quil_or_debug().replace('\n', " ⏎ ")).collect()
}

pub fn oracle(items: &[Item], out: &mut Outcome) -> Check {
    let list: Vec<Instruction> = items.iter().map(|i| i.instr.clone()).collect();
    let model = Model::from_items(items);
    let has_extern = model.distinct_keys(Kind::Extern) >= 1;
    let redefs = Model::redefinitions(items);
    out.nontrivial = has_extern && redefs >= 1;
    if has_extern {
        out.class("extern");
    }
    if redefs >= 1 {
        out.class("redefinition");
    }
    if !model.body.is_empty() && has_extern {
        out.class("extern+body");
    }

    let p = lib(|| {
        let mut p = Program::new();
        for i in &list {
            p.add_instruction(i.clone());
        }
        p
    })?;
    let copying = lib(|| p.to_instructions())?;
    let consuming = lib(|| p.clone().into_instructions())?;

    // (a)
    if copying != consuming {
        let same_multiset = copying.len() == consuming.len() && copying.iter().all(|i| consuming.contains(i));
        let sig = if same_multiset { "c09:listings-differ:order" } else { "c09:listings-differ:content" };
        fail!(sig, "to_instructions() and into_instructions() differ:\n  to:   {:?}\n  into: {:?}", texts(&copying), texts(&consuming));
    }

    // (b)
    for (name, listing) in [("to_instructions", &copying), ("into_instructions", &consuming)] {
        let q = lib(|| Program::from_instructions(listing.clone()))?;
        ensure!(q == p, format!("c09:rebuild-not-equal:{name}"), "Program::from_instructions({name}()) != original; listing {:?}", texts(listing));
        let (tp, tq) = (lib(|| p.to_quil())?, lib(|| q.to_quil())?);
        match (tp, tq) {
            (Ok(a), Ok(b)) => ensure!(a == b, format!("c09:rebuild-text-differs:{name}"), "rebuilt program serializes differently:\n{a}\n---\n{b}"),
            (a, b) => fail!("c09:to-quil-error", "serialization failed: {a:?} / {b:?}"),
        }
        ensure!(
            lib(|| q.to_instructions())? == *listing,
            format!("c09:rebuild-listing-differs:{name}"),
            "listing of the rebuilt program differs from the listing it was built from"
        );
    }

    // (c)
    let body_refs: Vec<Instruction> = p.body_instructions().cloned().collect();
    ensure!(body_refs == model.body, "c09:body-order", "body_instructions() = {:?}, added in order {:?}", texts(&body_refs), texts(&model.body));
    let body_into: Vec<Instruction> = lib(|| p.clone().into_body_instructions().collect())?;
    ensure!(body_into == model.body, "c09:body-order:into", "into_body_instructions() differs from the added body");
    let body_in_listing: Vec<Instruction> = copying.iter().filter(|i| defs::classify(i).0 == Kind::Body).cloned().collect();
    ensure!(body_in_listing == model.body, "c09:body-order:listing", "body part of to_instructions() = {:?}, added {:?}", texts(&body_in_listing), texts(&model.body));
    // the body is the tail of the listing (definitions never interleave with it)
    let tail = &copying[copying.len() - model.body.len().min(copying.len())..];
    ensure!(tail == model.body.as_slice(), "c09:body-not-last", "body instructions are not the tail of the listing: {:?}", texts(&copying));

    // (d)
    for kind in DEF_KINDS {
        let got: Vec<&Instruction> = copying.iter().filter(|i| defs::classify(i).0 == kind).collect();
        let want = model.of_kind(kind);
        let same = got.len() == want.len() && want.iter().all(|w| got.contains(&w));
        ensure!(
            same,
            format!("c09:last-value:{kind:?}"),
            "{kind:?}: listing has {:?}, expected exactly the last value of each key {:?}",
            got.iter().map(|i| i.to_quil_or_debug()).collect::<Vec<_>>(),
            texts(&want)
        );
    }
    ensure!(
        copying.len() == model.defs.len() + model.body.len(),
        "c09:listing-length",
        "listing has {} instructions, model {}",
        copying.len(),
        model.defs.len() + model.body.len()
    );
    Ok(())
}

impl Property for C09Prop {
    fn id(&self) -> &'static str {
        "C09"
    }
    fn rule(&self) -> &'static str {
        "random sequences of <= 14 (quick) / <= 24 (thorough) instructions added one by one: 70% definitions over the 8 definition kinds (named, unnamed and non-identifier PRAGMA EXTERN, DECLARE, DEFFRAME, DEFWAVEFORM, DEFCAL, DEFCAL MEASURE, DEFGATE, DEFCIRCUIT; keys from small pools, several values per key), 30% body instructions. Non-trivial = has a PRAGMA EXTERN and a redefinition; distinct by sequence hash."
    }
    fn max_words(&self) -> usize {
        2 * (24 * 8 + 4)
    }
    fn cases(&self, tier: Tier) -> u64 {
        tier.pick(60_000, 1_500_000)
    }
    fn run(&self, src: &mut Src, ctx: &Ctx, out: &mut Outcome) -> Check {
        let items = defs::sequence(src, &SeqCfg { max_len: ctx.tier.pick(14, 24), body_pct: 30 });
        out.set_key(&defs::render(&items));
        if ctx.render {
            out.render = Some(defs::render(&items));
        }
        oracle(&items, out)
    }
    fn run_text(&self, text: &str, _ctx: &Ctx, out: &mut Outcome) -> Check {
        let items = match defs::parse_items(text) {
            Ok(i) => i,
            Err(e) => fail!("harness:c09-text", "{e}"),
        };
        out.set_key(&defs::render(&items));
        oracle(&items, out)
    }
    fn floors(&self) -> Vec<(&'static str, f64)> {
        vec![("extern", 0.3), ("redefinition", 0.3), ("extern+body", 0.2)]
    }
}
