//! C16 — Calibration lookup follows the documented precedence rules.
//!
//! Statement: "A gate matches only calibrations with its name, modifiers, parameter and qubit
//! counts whose fixed qubits and non-variable parameters equal its own; the match with the most
//! fixed qubits wins, ties going to the later definition. A measurement matches only calibrations
//! with its name and record/effect kind; an exact fixed-qubit match beats a variable one, and the
//! later definition wins. Redefining a calibration with an identical signature replaces it in
//! place."
//!
//! Oracle: `model::cal` (matcher + insertion-ordered set) vs `Calibrations::get_match_for_gate`,
//! `get_match_for_measurement`, `Calibrations::to_instructions` and `expand_calibrations` of a
//! one-instruction program. The parameter alphabet {0, 1, pi/2, 1.5707963267948966, %t} is chosen
//! so that "same constant value" and the library's "equal after simplification" coincide.
//! Placeholder qubits are not generated (the statement is silent about them).

use crate::engine::{lib, Check, Ctx, Outcome, Property, Src, Tier};
use crate::gen::expr as gx;
use crate::model::cal::{self, CalSet};
use crate::{ensure, fail};
use quil_rs::expression::{Expression, InfixOperator};
use quil_rs::instruction::{
    CalibrationDefinition, CalibrationIdentifier, Gate, GateModifier, Instruction, MeasureCalibrationDefinition,
    MeasureCalibrationIdentifier, Measurement, Pragma, Qubit,
};
use quil_rs::quil::Quil;
use quil_rs::Program;

pub struct C16Prop;
pub static C16: C16Prop = C16Prop;

const NAMES: [(&str, usize, usize); 3] = [("X", 1, 0), ("RX", 1, 1), ("CZ", 2, 0)];

fn param(k: usize) -> Expression {
    match k {
        0 => gx::num(0.0, 0.0),
        1 => gx::num(1.0, 0.0),
        2 => gx::infix(Expression::PiConstant(), InfixOperator::Slash, gx::num(2.0, 0.0)),
        3 => gx::num(std::f64::consts::FRAC_PI_2, 0.0),
        _ => Expression::Variable("t".into()),
    }
}

fn modifiers(k: usize) -> Vec<GateModifier> {
    match k {
        0 => vec![],
        1 => vec![GateModifier::Dagger],
        _ => vec![GateModifier::Controlled],
    }
}

fn gen_cal_qubit(src: &mut Src) -> Qubit {
    match src.below(5) {
        0 => Qubit::Variable("a".into()),
        1 => Qubit::Variable("b".into()),
        k => Qubit::Fixed(k as u64 - 2),
    }
}

fn marker(k: usize) -> Vec<Instruction> {
    vec![Instruction::Pragma(Pragma { name: format!("K{k}"), arguments: vec![], data: None })]
}

fn gen_gate_cal(src: &mut Src, k: usize) -> CalibrationDefinition {
    let (name, nq, np) = NAMES[src.weighted(&[2, 5, 2])];
    let m = src.weighted(&[8, 1, 1]);
    let nq = nq + usize::from(m == 2) + usize::from(src.chance(1, 12));
    let np = if src.chance(1, 12) { np + 1 } else { np };
    let qubits = (0..nq).map(|_| gen_cal_qubit(src)).collect();
    let params = (0..np).map(|_| param(src.below(5))).collect();
    CalibrationDefinition { identifier: CalibrationIdentifier::new(name.to_string(), modifiers(m), params, qubits).unwrap(), instructions: marker(k) }
}

fn gen_measure_cal(src: &mut Src, k: usize) -> MeasureCalibrationDefinition {
    let name = if src.chance(1, 5) { Some("m1".to_string()) } else { None };
    let qubit = match src.below(4) {
        0 => Qubit::Variable("q".into()),
        k => Qubit::Fixed(k as u64 - 1),
    };
    let target = match src.below(8) {
        0 | 1 => None,
        2 | 3 => Some("dest".to_string()),
        _ => Some("addr".to_string()),
    };
    MeasureCalibrationDefinition { identifier: MeasureCalibrationIdentifier::new(name, qubit, target), instructions: marker(k) }
}

fn instantiate_gate(src: &mut Src, c: &CalibrationDefinition) -> Gate {
    let id = &c.identifier;
    let qubits: Vec<Qubit> = id
        .qubits
        .iter()
        .map(|q| match q {
            Qubit::Fixed(n) if src.chance(6, 7) => Qubit::Fixed(*n),
            _ => Qubit::Fixed(src.below(3) as u64),
        })
        .collect();
    let params: Vec<Expression> = id
        .parameters
        .iter()
        .map(|p| match p {
            Expression::Variable(_) => param(src.below(5)),
            other if src.chance(5, 7) => other.clone(),
            // an equal constant spelled differently, or another value
            _ => param(src.below(4)),
        })
        .collect();
    let mods = if src.chance(9, 10) { id.modifiers.clone() } else { modifiers(src.below(3)) };
    Gate { name: id.name.clone(), parameters: params, qubits, modifiers: mods }
}

impl Property for C16Prop {
    fn id(&self) -> &'static str {
        "C16"
    }
    fn rule(&self) -> &'static str {
        "random calibration lists of 0..7 definitions over names {X, RX, CZ}, modifier lists {[], [DAGGER], [CONTROLLED]}, qubits Fixed 0..2 / Variable a,b, parameters {0, 1, pi/2, 1.5707963267948966, %t} (occasionally with a deviating qubit/parameter count), each with an identifying PRAGMA body, and measure calibrations over names {none, m1}, qubits Fixed 0..2 / Variable, without target or with target name addr / dest (two definitions that differ only in the target name are distinct); queries are with probability 0.8 an instantiation of one definition (variables replaced, fixed parts kept or perturbed, constants respelled) and otherwise arbitrary over the same alphabets. Non-trivial = >= 2 definitions match the query; distinct by (definitions, query) text."
    }
    fn max_words(&self) -> usize {
        200
    }
    fn cases(&self, tier: Tier) -> u64 {
        tier.pick(80_000, 2_000_000)
    }
    fn run(&self, src: &mut Src, ctx: &Ctx, out: &mut Outcome) -> Check {
        let n = src.below(8);
        let measure_mode = src.chance(1, 4);
        let mut defs: Vec<Instruction> = vec![];
        for k in 0..n {
            if measure_mode {
                defs.push(Instruction::MeasureCalibrationDefinition(gen_measure_cal(src, k)));
            } else {
                defs.push(Instruction::CalibrationDefinition(gen_gate_cal(src, k)));
            }
        }
        let mut model = CalSet::default();
        let mut program = Program::new();
        for d in &defs {
            model.insert(d);
            program.add_instruction(d.clone());
        }
        // (1) set semantics
        let listed = lib(|| program.calibrations.to_instructions())?;
        ensure!(
            listed == model.to_instructions(),
            "c16:set-listing",
            "after inserting [{}] the set lists [{}], expected [{}]",
            texts(&defs),
            texts(&listed),
            texts(&model.to_instructions())
        );
        // query
        let query: Instruction = if measure_mode {
            let m = if !model.measures.is_empty() && src.chance(4, 5) {
                let c = src.pick(&model.measures).clone();
                Measurement {
                    name: if src.chance(8, 9) { c.identifier.name.clone() } else { None },
                    qubit: match &c.identifier.qubit {
                        Qubit::Fixed(n) if src.chance(5, 6) => Qubit::Fixed(*n),
                        _ => Qubit::Fixed(src.below(3) as u64),
                    },
                    target: if c.identifier.target.is_some() != src.chance(1, 8) { Some(crate::gen::rf::mref("ro", 0)) } else { None },
                }
            } else {
                Measurement {
                    name: if src.chance(1, 3) { Some("m1".into()) } else { None },
                    qubit: Qubit::Fixed(src.below(3) as u64),
                    target: if src.chance(1, 2) { Some(crate::gen::rf::mref("ro", 0)) } else { None },
                }
            };
            Instruction::Measurement(m)
        } else if !model.gates.is_empty() && src.chance(4, 5) {
            let c = src.pick(&model.gates).clone();
            Instruction::Gate(instantiate_gate(src, &c))
        } else {
            let (name, nq, np) = *src.pick(&NAMES);
            Instruction::Gate(Gate {
                name: name.to_string(),
                parameters: (0..np).map(|_| param(src.below(5))).collect(),
                qubits: (0..nq).map(|_| Qubit::Fixed(src.below(3) as u64)).collect(),
                modifiers: modifiers(src.weighted(&[5, 1, 1])),
            })
        };
        let text = format!("{} ;; {}", texts(&defs), query.to_quil_or_debug());
        out.set_key(&text);
        if ctx.render {
            out.render = Some(text.clone());
        }
        // (2) lookup
        let (expected_body, ncand): (Option<Vec<Instruction>>, usize) = match &query {
            Instruction::Gate(g) => {
                let w = cal::match_gate(&model, g);
                let got = lib(|| program.calibrations.get_match_for_gate(g).cloned())?;
                let exp = w.map(|i| model.gates[i].clone());
                ensure!(
                    got == exp,
                    if cal::gate_candidates(&model, g).len() >= 2 { "c16:gate-precedence" } else { "c16:gate-match" },
                    "[{text}]: get_match_for_gate returned {}, rules give {}",
                    got.map(|c| c.to_quil_or_debug()).unwrap_or("none".into()),
                    exp.clone().map(|c| c.to_quil_or_debug()).unwrap_or("none".into())
                );
                (exp.map(|c| c.instructions), cal::gate_candidates(&model, g).len())
            }
            Instruction::Measurement(m) => {
                let w = cal::match_measure(&model, m);
                let got = lib(|| program.calibrations.get_match_for_measurement(m).cloned())?;
                let exp = w.map(|i| model.measures[i].clone());
                ensure!(
                    got == exp,
                    if cal::measure_candidates(&model, m).len() >= 2 { "c16:measure-precedence" } else { "c16:measure-match" },
                    "[{text}]: get_match_for_measurement returned {}, rules give {}",
                    got.map(|c| c.to_quil_or_debug()).unwrap_or("none".into()),
                    exp.clone().map(|c| c.to_quil_or_debug()).unwrap_or("none".into())
                );
                (exp.map(|c| c.instructions), cal::measure_candidates(&model, m).len())
            }
            _ => fail!("harness:c16", "bad query"),
        };
        out.nontrivial = ncand >= 2;
        out.class(if measure_mode { "measure" } else { "gate" });
        if ncand >= 2 {
            out.class(if measure_mode { "measure>=2-candidates" } else { "gate>=2-candidates" });
        }
        // (3) through expansion
        program.add_instruction(query.clone());
        let expanded = match lib(|| program.expand_calibrations())? {
            Ok(p) => p,
            Err(e) => fail!("c16:expand-error", "[{text}]: expand_calibrations failed: {e}"),
        };
        let body: Vec<Instruction> = expanded.body_instructions().cloned().collect();
        let want = expected_body.unwrap_or_else(|| vec![query.clone()]);
        ensure!(body == want, "c16:expansion-uses-other-calibration", "[{text}]: expansion gives [{}], the winning calibration's body is [{}]", texts(&body), texts(&want));
        Ok(())
    }
    fn floors(&self) -> Vec<(&'static str, f64)> {
        vec![("gate>=2-candidates", 0.05), ("measure>=2-candidates", 0.02)]
    }
}

fn texts(b: &[Instruction]) -> String {
    b.iter().map(|i| i.to_quil_or_debug().replace('\n', " ")).collect::<Vec<_>>().join(" | ")
}
