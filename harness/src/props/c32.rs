//! C32 — Built-in waveforms sample to the right length and respond linearly.
//!
//! Statement: "For every built-in waveform with a duration that aligns with the sample rate, the
//! number of IQ samples is the rounded product of duration and sample rate. Padded waveforms add
//! the rounded-up padding on each side. Scaling multiplies every sample by the scale, a phase of p
//! cycles multiplies every sample by exp(2πip), and zero scale gives all-zero samples; partially
//! known parameters give placeholders of the same length and, once known, the same samples."
//!
//! Oracles (metamorphic; the shapes themselves are snapshot-tested by the crate):
//!  (a) count = m (duration is built as m / rate) + ceil(pad·rate) per side;
//!  (b) samples(scale s, phase p) = s · e^{2πip} · samples(scale 1, phase 0), entrywise, 1e-9;
//!      absent scale ≡ scale 1, absent phase ≡ phase 0, absent detuning ≡ detuning 0;
//!  (c) scale 0 ⇒ every sample is 0;
//!  (d) partial API: every parameter known ⇒ exactly the concrete API's samples; one parameter
//!      unknown ⇒ a placeholder of the same length (or, when the scale is known to be 0, all-zero
//!      samples of that length, which the zero-scale clause allows).

use crate::engine::{lib, Check, Ctx, Outcome, Property, Src, Tier};
use crate::{ensure, fail};
use num_complex::Complex64;
use quil_rs::units::Cycles;
use quil_rs::waveform::builtin::{
    BoxcarKernel, BuiltinWaveform, BuiltinWaveformParameters, CommonBuiltinParameters, DragGaussian, ErfSquare, Flat, Gaussian, HermiteGaussian,
    IqSamplesOrPlaceholder, PartialBuiltinWaveformParameters, RaisedCosine,
};
use quil_rs::waveform::{Concrete, Partial};

pub struct C32Prop;
pub static C32: C32Prop = C32Prop;

#[derive(Clone, Debug)]
struct Case32 {
    kind: usize,
    m: u32,
    rate: f64,
    /// shape parameters, meaning depends on the kind
    shape: [f64; 5],
    iq: Complex64,
    pad: [f64; 2],
    pad_samples: [usize; 2],
    scale: Option<f64>,
    phase: Option<f64>,
    detuning: Option<f64>,
    /// which parameter the partial variant leaves unknown (index into the kind's unknowable list)
    unknown: usize,
}

const KINDS: [&str; 7] = ["flat", "gaussian", "drag_gaussian", "erf_square", "hermite_gaussian", "raised_cosine", "boxcar_kernel"];

fn padding(src: &mut Src, rate: f64) -> (f64, usize) {
    let k = src.below(5);
    if src.chance(1, 2) {
        let pad = k as f64 / rate;
        if pad * rate == k as f64 {
            return (pad, k);
        }
    }
    // clearly fractional: strictly between k and k+1 samples
    ((k as f64 + 0.5) / rate, k + 1)
}

fn generate(src: &mut Src, tier: Tier) -> Case32 {
    let kind = src.below(7);
    let m = src.below(tier.pick(33, 65)) as u32;
    let rate = *src.pick(&[1.0, 100.0, 1e6, 1e9, 8.0, 2.5e8]);
    let duration = m as f64 / rate;
    let span = if duration > 0.0 { duration } else { 1.0 / rate };
    let shape = [
        span * src.real(0.1, 1.0),          // fwhm / risetime
        span * src.real(0.0, 1.0),          // t0
        src.real(0.5e8, 3.0e8) * if src.chance(1, 2) { -1.0 } else { 1.0 }, // anh
        src.real(-2.0, 2.0),                // alpha
        src.real(0.0, 1.0),                 // second_order_hrm_coeff / rolloff
    ];
    let iq = Complex64::new(src.real(-2.0, 2.0), src.real(-2.0, 2.0));
    let (p0, n0) = padding(src, rate);
    let (p1, n1) = padding(src, rate);
    let scale = match src.below(6) {
        0 => None,
        1 => Some(0.0),
        2 => Some(1.0),
        3 => Some(-1.5),
        _ => Some(src.real(-2.0, 2.0)),
    };
    let phase = match src.below(5) {
        0 => None,
        1 => Some(0.0),
        2 => Some(0.25),
        _ => Some(src.real(-1.0, 1.0)),
    };
    // detuning as a fraction of the sample rate, so that the accumulated phase stays a few cycles
    // (a detuning far above the sample rate makes cis() of the accumulated phase ill-conditioned)
    let detuning = *src.pick(&[None, None, Some(0.0), Some(rate / 64.0), Some(-rate / 16.0)]);
    let mut c = Case32 { kind, m, rate, shape, iq, pad: [p0, p1], pad_samples: [n0, n1], scale, phase, detuning, unknown: src.below(8) };
    if kind == 5 {
        // rolloff: the two documented end points and the interior
        c.shape[4] = match src.below(4) {
            0 => 0.0,
            1 => 1.0,
            _ => c.shape[4].clamp(0.05, 0.95),
        };
    }
    c
}

fn duration(c: &Case32) -> f64 {
    c.m as f64 / c.rate
}

fn concrete(c: &Case32) -> BuiltinWaveform<Concrete> {
    let s = c.shape;
    match c.kind {
        0 => Flat::<Concrete> { iq: c.iq }.into(),
        1 => Gaussian::<Concrete> { fwhm: s[0], t0: s[1] }.into(),
        2 => DragGaussian::<Concrete> { fwhm: s[0], t0: s[1], anh: s[2], alpha: s[3] }.into(),
        3 => ErfSquare::<Concrete> { risetime: s[0] * 0.5, pad_left: c.pad[0], pad_right: c.pad[1] }.into(),
        4 => HermiteGaussian::<Concrete> { fwhm: s[0], t0: s[1], anh: s[2], alpha: s[3], second_order_hrm_coeff: s[4] }.into(),
        5 => RaisedCosine::<Concrete> { rolloff: s[4], pad_left: c.pad[0], pad_right: c.pad[1] }.into(),
        _ => BoxcarKernel.into(),
    }
}

/// The partial waveform with shape parameter number `unknown` (if the kind has that many) unknown.
fn partial(c: &Case32, unknown: Option<usize>) -> (BuiltinWaveform<Partial<Concrete>>, bool) {
    let s = c.shape;
    let mut hit = false;
    let mut f = |k: usize, v: f64| -> Option<f64> {
        if unknown == Some(k) {
            hit = true;
            None
        } else {
            Some(v)
        }
    };
    let w: BuiltinWaveform<Partial<Concrete>> = match c.kind {
        0 => {
            let iq = if unknown == Some(0) { None } else { Some(c.iq) };
            let w = Flat::<Partial<Concrete>> { iq }.into();
            return (w, unknown == Some(0));
        }
        1 => Gaussian::<Partial<Concrete>> { fwhm: f(0, s[0]), t0: f(1, s[1]) }.into(),
        2 => DragGaussian::<Partial<Concrete>> { fwhm: f(0, s[0]), t0: f(1, s[1]), anh: f(2, s[2]), alpha: f(3, s[3]) }.into(),
        3 => ErfSquare::<Partial<Concrete>> { risetime: f(0, s[0] * 0.5), pad_left: c.pad[0], pad_right: c.pad[1] }.into(),
        4 => HermiteGaussian::<Partial<Concrete>> { fwhm: f(0, s[0]), t0: f(1, s[1]), anh: f(2, s[2]), alpha: f(3, s[3]), second_order_hrm_coeff: f(4, s[4]) }.into(),
        5 => RaisedCosine::<Partial<Concrete>> { rolloff: f(0, s[4]), pad_left: c.pad[0], pad_right: c.pad[1] }.into(),
        _ => BoxcarKernel.into(),
    };
    (w, hit)
}

fn common(c: &Case32, scale: Option<f64>, phase: Option<f64>) -> CommonBuiltinParameters<Concrete> {
    CommonBuiltinParameters { duration: duration(c), scale, phase: phase.map(Cycles), detuning: c.detuning }
}

fn sample(c: &Case32, scale: Option<f64>, phase: Option<f64>) -> Result<Vec<Complex64>, crate::engine::Failure> {
    match lib(|| concrete(c).iq_values_at_sample_rate(common(c, scale, phase), c.rate))? {
        Ok(s) => Ok(s.into_iq_values()),
        Err(e) => fail!("c32:sampling-error", "{} with aligned duration {} at rate {} failed: {e}", KINDS[c.kind], duration(c), c.rate),
    }
}

fn close(a: Complex64, b: Complex64) -> bool {
    (a - b).norm() <= 1e-9 * (1.0f64).max(a.norm()).max(b.norm())
}

pub fn oracle(c: &Case32, out: &mut Outcome) -> Check {
    let padded = matches!(c.kind, 3 | 5);
    let expected_count = c.m as usize + if padded { c.pad_samples[0] + c.pad_samples[1] } else { 0 };
    let text = format!("{c:?}");
    // (a)
    let base = sample(c, Some(1.0), Some(0.0))?;
    ensure!(
        base.len() == expected_count,
        if padded { "c32:sample-count:padded" } else { "c32:sample-count" },
        "{}: {} samples, expected {} (m = {}, paddings {:?} -> {:?} samples); case {text}",
        KINDS[c.kind],
        base.len(),
        expected_count,
        c.m,
        c.pad,
        c.pad_samples
    );
    ensure!(base.iter().all(|x| x.re.is_finite() && x.im.is_finite()), "c32:non-finite", "{}: non-finite sample; case {text}", KINDS[c.kind]);
    // defaults
    let defaults = sample(c, None, None)?;
    ensure!(defaults.len() == base.len() && defaults.iter().zip(&base).all(|(a, b)| close(*a, *b)), "c32:defaults", "{}: absent scale/phase differ from scale 1 / phase 0; case {text}", KINDS[c.kind]);
    // (b)
    let got = sample(c, c.scale, c.phase)?;
    ensure!(got.len() == expected_count, "c32:sample-count:scaled", "{}: {} samples with scale/phase, {} without", KINDS[c.kind], got.len(), expected_count);
    let s = c.scale.unwrap_or(1.0);
    let p = c.phase.unwrap_or(0.0);
    let factor = Complex64::from_polar(s, 2.0 * std::f64::consts::PI * p);
    for (k, (g, b)) in got.iter().zip(&base).enumerate() {
        if !close(*g, factor * *b) {
            let only_scale = close(*g, Complex64::new(s, 0.0) * *b);
            let sig = if c.phase.is_some() && only_scale && p != 0.0 {
                "c32:phase-not-applied"
            } else if (g.norm() - (factor * *b).norm()).abs() > 1e-9 * (1.0f64).max(g.norm()) {
                "c32:scale-not-linear"
            } else {
                "c32:phase-wrong"
            };
            fail!(sig, "{}: sample {k} is {g} but scale {s} · e^(2πi·{p}) · {b} = {}; case {text}", KINDS[c.kind], factor * *b);
        }
    }
    // (c)
    if c.scale == Some(0.0) {
        ensure!(got.iter().all(|x| x.norm() == 0.0), "c32:zero-scale-not-zero", "{}: scale 0 but a sample is non-zero; case {text}", KINDS[c.kind]);
        out.class("zero-scale");
    }
    // (d) everything known
    let pc = |scale: Option<Option<f64>>, phase: Option<Option<f64>>, det: Option<Option<f64>>| CommonBuiltinParameters::<Partial<Concrete>> {
        duration: duration(c),
        scale,
        phase: phase.map(Cycles),
        detuning: det,
    };
    let known_common = pc(c.scale.map(Some), c.phase.map(Some), c.detuning.map(Some));
    let (w_all, _) = partial(c, None);
    match lib(|| w_all.partial_iq_values_at_sample_rate(known_common, c.rate))? {
        Ok(IqSamplesOrPlaceholder::Samples(s)) => {
            let v = s.into_iq_values();
            ensure!(v == got, "c32:partial-known-differs", "{}: partial API with every parameter known gives different samples than the concrete API; case {text}", KINDS[c.kind]);
        }
        Ok(IqSamplesOrPlaceholder::Placeholder(_)) => fail!("c32:partial-known-placeholder", "{}: every parameter known but the partial API returns a placeholder; case {text}", KINDS[c.kind]),
        Err(e) => fail!("c32:partial-error", "{}: partial API failed: {e}", KINDS[c.kind]),
    }
    // (d) one parameter unknown: a shape parameter, or scale / phase / detuning
    let nshape = [1, 2, 4, 1, 5, 1, 0][c.kind];
    let which = c.unknown % (nshape + 3);
    let (w, common_partial, what) = if which < nshape {
        (partial(c, Some(which)).0, known_common, "shape parameter")
    } else {
        let (mut sc, mut ph, mut de) = (c.scale.map(Some), c.phase.map(Some), c.detuning.map(Some));
        let what = match which - nshape {
            0 => {
                sc = Some(None);
                "scale"
            }
            1 => {
                ph = Some(None);
                "phase"
            }
            _ => {
                de = Some(None);
                "detuning"
            }
        };
        (w_all, pc(sc, ph, de), what)
    };
    let scale_known_zero = matches!(common_partial.scale, Some(Some(z)) if z == 0.0);
    match lib(|| w.partial_iq_values_at_sample_rate(common_partial, c.rate))? {
        Ok(IqSamplesOrPlaceholder::Placeholder(ph)) => {
            ensure!(
                ph.sample_count() == expected_count,
                "c32:placeholder-length",
                "{}: placeholder ({what} unknown) has {} samples, the concrete waveform {}; case {text}",
                KINDS[c.kind],
                ph.sample_count(),
                expected_count
            );
            out.class("placeholder");
        }
        Ok(IqSamplesOrPlaceholder::Samples(s)) => {
            let v = s.into_iq_values();
            ensure!(
                scale_known_zero && v.len() == expected_count && v.iter().all(|x| x.norm() == 0.0),
                "c32:samples-with-unknown-parameter",
                "{}: {what} is unknown yet concrete samples came back (only all-zero samples for a known zero scale are allowed); case {text}",
                KINDS[c.kind]
            );
            out.class("zero-scale-partial");
        }
        Err(e) => fail!("c32:partial-error", "{}: partial API ({what} unknown) failed: {e}", KINDS[c.kind]),
    }
    out.nontrivial = s != 0.0 && p != 0.0 && expected_count >= 2;
    out.class(KINDS[c.kind]);
    Ok(())
}

impl Property for C32Prop {
    fn id(&self) -> &'static str {
        "C32"
    }
    fn rule(&self) -> &'static str {
        "the 7 built-in kinds; duration = m / rate with m in 0..32 (quick) / 0..64 (thorough) and rate in {1, 8, 100, 1e6, 2.5e8, 1e9} (aligned by construction); paddings k/rate (only when k/rate*rate == k exactly) or (k+0.5)/rate, k in 0..4; fwhm/risetime in (0.1, 1) x duration, t0 in [0, duration], |anh| in [0.5e8, 3e8], alpha in [-2, 2], second-order coefficient in [0, 1], rolloff in {0, 1} or (0.05, 0.95), iq in the square [-2, 2]^2; scale absent / 0 / 1 / -1.5 / uniform in [-2, 2]; phase absent / 0 / 0.25 / uniform in [-1, 1]; detuning absent / 0 / rate/64 / -rate/16; one parameter (shape, scale, phase or detuning) left unknown for the partial API. Non-trivial = non-zero scale, non-zero phase and >= 2 samples; distinct by the parameter tuple."
    }
    fn max_words(&self) -> usize {
        80
    }
    fn cases(&self, tier: Tier) -> u64 {
        tier.pick(40_000, 800_000)
    }
    fn run(&self, src: &mut Src, ctx: &Ctx, out: &mut Outcome) -> Check {
        let c = generate(src, ctx.tier);
        let text = format!("{c:?}");
        out.set_key(&text);
        if ctx.render {
            out.render = Some(format!("{} {text}", KINDS[c.kind]));
        }
        oracle(&c, out)
    }
    fn floors(&self) -> Vec<(&'static str, f64)> {
        let mut v: Vec<(&'static str, f64)> = KINDS.iter().map(|k| (*k, 0.05)).collect();
        v.push(("placeholder", 0.5));
        v.push(("zero-scale", 0.05));
        v
    }
}
