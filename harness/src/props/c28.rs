//! C28 — The control-flow graph partitions the body and locates its blocks.
//!
//! Statement clauses checked:
//!  (a) "Taking the control-flow graph's blocks in order and writing each as its label, its
//!      instructions and its terminator reproduces the program body exactly, INCLUDE excepted."
//!  (b) "Each block's terminator reflects its JUMP, JUMP-WHEN, JUMP-UNLESS or HALT (or
//!      fall-through)" — via (a) with `BasicBlockTerminator::into_instruction`, plus: no
//!      control-flow instruction hides inside `instructions()`.
//!  (c) "the graph reports dynamic control flow iff there is a conditional jump."
//!  (d) "Each block's offset is the body position of its first element, so offset-based indices
//!      find the block's instructions in the program."

use crate::engine::{Case, Check, Ctx, Outcome, Property, Src, Tier};
use crate::{ensure, fail};
use quil_rs::instruction::{
    Arithmetic, ArithmeticOperand, ArithmeticOperator, Gate, Instruction, Jump, JumpUnless, JumpWhen, Label, Measurement,
    MemoryReference, Pragma, Qubit, Target,
};
use quil_rs::program::analysis::ControlFlowGraph;
use quil_rs::quil::Quil;
use quil_rs::Program;

pub struct C28Prop;
pub static C28: C28Prop = C28Prop;

fn mref(name: &str, index: u64) -> MemoryReference {
    MemoryReference { name: name.to_string(), index }
}

fn target(s: &str) -> Target {
    Target::Fixed(s.to_string())
}

/// The first 8 entries are the alphabet of the exhaustive part (as in the property's quantifier).
fn letter(i: usize) -> Instruction {
    match i {
        0 => Instruction::Gate(Gate::new("X", vec![], vec![Qubit::Fixed(0)], vec![]).unwrap()),
        1 => Instruction::Measurement(Measurement { name: None, qubit: Qubit::Fixed(0), target: Some(mref("ro", 0)) }),
        2 => Instruction::Label(Label { target: target("a") }),
        3 => Instruction::Label(Label { target: target("b") }),
        4 => Instruction::Jump(Jump { target: target("a") }),
        5 => Instruction::JumpWhen(JumpWhen { target: target("a"), condition: mref("r", 0) }),
        6 => Instruction::JumpUnless(JumpUnless { target: target("b"), condition: mref("r", 1) }),
        7 => Instruction::Halt(),
        8 => Instruction::Nop(),
        9 => Instruction::Wait(),
        10 => Instruction::Pragma(Pragma { name: "P".into(), arguments: vec![], data: None }),
        11 => Instruction::Arithmetic(Arithmetic {
            operator: ArithmeticOperator::Add,
            destination: mref("r", 0),
            source: ArithmeticOperand::LiteralInteger(1),
        }),
        12 => Instruction::Label(Label { target: target("c") }),
        13 => Instruction::Jump(Jump { target: target("undefined") }),
        14 => Instruction::Gate(Gate::new("CNOT", vec![], vec![Qubit::Fixed(0), Qubit::Fixed(1)], vec![]).unwrap()),
        _ => Instruction::JumpWhen(JumpWhen { target: target("c"), condition: mref("ro", 0) }),
    }
}
const SMALL: usize = 8;
const LARGE: usize = 16;

fn is_control(i: &Instruction) -> bool {
    matches!(
        i,
        Instruction::Label(_) | Instruction::Jump(_) | Instruction::JumpWhen(_) | Instruction::JumpUnless(_) | Instruction::Halt()
    )
}

pub fn oracle(body: &[Instruction], out: &mut Outcome) -> Check {
    let program = Program::from_instructions(body.to_vec());
    let actual_body: Vec<Instruction> = program.body_instructions().cloned().collect();
    ensure!(actual_body == body, "harness:c28-body", "generator produced a non-body instruction");
    let cfg = ControlFlowGraph::from(&program);
    let dynamic = cfg.has_dynamic_control_flow();
    let blocks = cfg.into_blocks();
    out.nontrivial = blocks.len() >= 2;
    if blocks.len() >= 3 {
        out.class("blocks>=3");
    }

    // (a)+(b)
    let mut rebuilt: Vec<Instruction> = vec![];
    let mut first_positions: Vec<usize> = vec![];
    for b in &blocks {
        first_positions.push(rebuilt.len());
        if let Some(l) = b.label() {
            rebuilt.push(Instruction::Label(Label { target: l.clone() }));
        }
        for i in b.instructions() {
            ensure!(
                !is_control(i),
                "c28:control-inside-block",
                "block contains control-flow instruction {} among its ordinary instructions",
                i.to_quil_or_debug()
            );
            rebuilt.push((*i).clone());
        }
        if let Some(t) = b.terminator().clone().into_instruction() {
            rebuilt.push(t);
        }
    }
    ensure!(
        rebuilt == body,
        "c28:reconstruction",
        "blocks do not reproduce the body: body={:?} rebuilt={:?}",
        texts(body),
        texts(&rebuilt)
    );

    // (c)
    let has_cond = body.iter().any(|i| matches!(i, Instruction::JumpWhen(_) | Instruction::JumpUnless(_)));
    ensure!(dynamic == has_cond, "c28:dynamic-flag", "has_dynamic_control_flow={dynamic} but conditional jump present={has_cond}");

    // (d)
    for (k, b) in blocks.iter().enumerate() {
        let off = b.instruction_index_offset();
        if off != first_positions[k] {
            let prev_unlabeled_then_label = k > 0 && blocks[k - 1].label().is_none() && b.label().is_some();
            let _ = prev_unlabeled_then_label;
            fail!(
                "c28:offset",
                "block {k} (label {:?}) reports offset {off} but its first element is body[{}]; body={:?}",
                b.label().map(|l| l.to_quil_or_debug()),
                first_positions[k],
                texts(body)
            );
        }
        let base = off + usize::from(b.label().is_some());
        for (j, i) in b.instructions().iter().enumerate() {
            ensure!(
                body.get(base + j) == Some(*i),
                "c28:offset-index",
                "body[{}] is not instruction {j} of block {k}",
                base + j
            );
        }
    }
    Ok(())
}

fn texts(b: &[Instruction]) -> Vec<String> {
    b.iter().map(|i| i.to_quil_or_debug()).collect()
}

fn max_len(tier: Tier) -> usize {
    tier.pick(5, 7)
}

impl Property for C28Prop {
    fn id(&self) -> &'static str {
        "C28"
    }
    fn rule(&self) -> &'static str {
        "exhaustive: every body of length <= 5 (quick) / <= 7 (thorough) over {X 0, MEASURE 0 ro[0], LABEL @a, LABEL @b, JUMP @a, JUMP-WHEN @a r[0], JUMP-UNLESS @b r[1], HALT}; random: bodies of length <= 24 over 16 letters (adds NOP, WAIT, PRAGMA, ADD, LABEL @c, JUMP @undefined, CNOT, JUMP-WHEN @c). Non-trivial = the control-flow graph has >= 2 blocks; distinct by letter sequence."
    }
    fn max_words(&self) -> usize {
        26
    }
    fn cases(&self, tier: Tier) -> u64 {
        tier.pick(40_000, 1_000_000)
    }
    fn run(&self, src: &mut Src, ctx: &Ctx, out: &mut Outcome) -> Check {
        // word 0: length; then letters. In direct mode the words are exactly the letters.
        let n = src.below(25);
        let letters: Vec<usize> = (0..n).map(|_| src.below(LARGE)).collect();
        out.set_key(&letters);
        let body: Vec<Instruction> = letters.iter().map(|l| letter(*l)).collect();
        if ctx.render {
            out.render = Some(texts(&body).join("; "));
        }
        oracle(&body, out)
    }
    fn enumerate(&self, tier: Tier, shard: u64, nshards: u64, f: &mut dyn FnMut(Case) -> bool) {
        let mut counter = 0u64;
        for len in 0..=max_len(tier) {
            let total = (SMALL as u64).pow(len as u32);
            for code in 0..total {
                counter += 1;
                if counter % nshards != shard {
                    continue;
                }
                let mut words = vec![len as u32];
                let mut c = code;
                for _ in 0..len {
                    words.push((c % SMALL as u64) as u32);
                    c /= SMALL as u64;
                }
                if !f(Case::direct(words)) {
                    return;
                }
            }
        }
    }
    fn exhaustive_part(&self, tier: Tier) -> Option<String> {
        let n: u64 = (0..=max_len(tier)).map(|l| 8u64.pow(l as u32)).sum();
        Some(format!("all {n} bodies of length <= {} over the 8-letter alphabet", max_len(tier)))
    }
}
