//! C01 — Parsing never panics or aborts on any input text.
//!
//! Statement: "For every input string, parsing it as a program, a single instruction, an
//! expression, a memory reference or a frame identifier returns either a value or an error. It
//! never panics, hits an unimplemented branch, overflows an integer, or aborts the process."
//!
//! Every generated string is fed to the five `FromStr` entry points; on success the value is
//! serialized (`to_quil`, which may itself return an error), on failure the error is formatted
//! with `Display` and `Debug` (what `quil-cli parse` does with either result). A panic anywhere in
//! there is a violation (the harness is built with overflow checks, so an integer overflow is a
//! panic); a stack overflow or abort kills the worker process, which the runner reports with the
//! case that was being run.

use crate::engine::{lib, Case, Check, Ctx, Failure, Outcome, Property, Src, Tier};
use crate::gen::text;
use quil_rs::expression::Expression;
use quil_rs::instruction::{FrameIdentifier, Instruction, MemoryReference};
use quil_rs::quil::Quil;
use quil_rs::Program;
use std::str::FromStr;

pub struct C01Prop;
pub static C01: C01Prop = C01Prop;

fn exercise<T, E>(r: Result<T, E>, ok: impl FnOnce(&T) -> usize, out: &mut Outcome, name: &'static str) -> usize
where
    E: std::fmt::Display + std::fmt::Debug,
{
    match r {
        Ok(v) => {
            if name == "program" {
                out.class("program-parses");
            }
            ok(&v)
        }
        Err(e) => {
            let shown = format!("{e}");
            let alt = format!("{e:#}");
            let dbg = format!("{e:?}");
            shown.len() + alt.len() + dbg.len()
        }
    }
}

pub fn oracle(t: &str, out: &mut Outcome) -> Check {
    let mut sink = 0usize;
    sink += lib(|| {
        let r = Program::from_str(t);
        exercise(r, |p| p.to_quil().map(|s| s.len()).unwrap_or(0) + p.to_quil_or_debug().len(), out, "program")
    })?;
    sink += lib(|| {
        let r = Instruction::from_str(t);
        exercise(r, |i| i.to_quil().map(|s| s.len()).unwrap_or(0), out, "instruction")
    })?;
    sink += lib(|| {
        let r = Expression::from_str(t);
        exercise(r, |e| e.to_quil().map(|s| s.len()).unwrap_or(0), out, "expression")
    })?;
    sink += lib(|| {
        let r = MemoryReference::from_str(t);
        exercise(r, |m| m.to_quil().map(|s| s.len()).unwrap_or(0), out, "memory-reference")
    })?;
    sink += lib(|| {
        let r = FrameIdentifier::from_str(t);
        exercise(r, |f| f.to_quil().map(|s| s.len()).unwrap_or(0), out, "frame-identifier")
    })?;
    std::hint::black_box(sink);
    Ok(())
}

fn nesting_probe(kind: usize, depth: usize) -> String {
    match kind {
        0 => format!("RX({}1{}) 0", "(".repeat(depth), ")".repeat(depth)),
        1 => format!("RX({}1{}) 0", "sin(".repeat(depth), ")".repeat(depth)),
        2 => format!("RX({}1{}) 0", "-(".repeat(depth), ")".repeat(depth)),
        3 => "(".repeat(depth),
        4 => format!("RX({}1) 0", "-".repeat(depth)),
        5 => format!("RX(1{}) 0", "^2".repeat(depth)),
        6 => format!("RX(1{}) 0", "+1".repeat(depth)),
        7 => format!("{}X 0", "DAGGER ".repeat(depth)),
        8 => format!("DEFCIRCUIT C:{}", "\n    NOP".repeat(depth)),
        9 => format!("ro{}", "[0]".repeat(depth)),
        10 => format!("X{}", " 0".repeat(depth)),
        11 => format!("\"{}\"", "\\\"".repeat(depth)),
        // definitions with blocks nested inside one another (one indent per level is all the block
        // grammar asks for)
        12 => format!("{}NOP", "DEFCIRCUIT A:\n\t".repeat(depth)),
        13 => format!("{}NOP", "DEFCAL X 0:\n    ".repeat(depth)),
        14 => format!("{}NOP", "DEFCAL MEASURE 0 addr:\n\t".repeat(depth)),
        _ => format!("{}NOP", "DEFCIRCUIT A(%t) q:\n\tDEFCAL RX(%t) q:\n\t".repeat(depth / 2)),
    }
}

const SUB: usize = 48;
const NPROBES: usize = 16;

impl Property for C01Prop {
    fn id(&self) -> &'static str {
        "C01"
    }
    fn rule(&self) -> &'static str {
        "exhaustive: every sequence of <= 2 tokens over a 107-token alphabet (one representative of each command keyword, modifier, data type and keyword token, identifiers, i, pi, sin, small / 2^63 / 2^64-1 / 2^64 integers, hex, a bare 0b, floats incl. 1e400, strings, %variable, @target, each operator and punctuation mark, newline, indent, tab, comment) joined by single spaces, plus every sequence of 3 tokens over the first 48 (quick) / over all 107 (thorough); 16 nesting probes ('(' x d, 'sin(' x d, '-(' x d, '-' x d, '^2' x d, '+1' x d, 'DAGGER ' x d, long blocks, '[0]' x d, long qubit lists, escaped-quote runs, DEFCIRCUIT / DEFCAL / DEFCAL MEASURE blocks nested d deep and an alternation of the two) at depths {8, 64, 512, 4096} (quick) and up to 100000 (thorough); random: spelling-template programs, printed API-built programs and corpus programs with 1..3 token / byte mutations. Non-trivial = the string has >= 2 whitespace-separated tokens; distinct by string hash."
    }
    fn guided(&self) -> bool {
        false
    }
    fn max_words(&self) -> usize {
        4000
    }
    fn cases(&self, tier: Tier) -> u64 {
        tier.pick(60_000, 1_500_000)
    }
    fn run(&self, src: &mut Src, ctx: &Ctx, out: &mut Outcome) -> Check {
        let t = if src.is_direct() {
            match src.below(2) {
                0 => {
                    // token sequence: words are [0, n, t1, ..., tn]
                    let alphabet = text::token_alphabet();
                    let n = src.below(4);
                    (0..n).map(|_| alphabet[src.below(alphabet.len())]).collect::<Vec<_>>().join(" ")
                }
                _ => {
                    let kind = src.below(NPROBES);
                    let depth = src.below(100_001);
                    out.class("nesting-probe");
                    nesting_probe(kind, depth)
                }
            }
        } else {
            let mut t = match src.weighted(&[4, 3, 1, 1]) {
                0 => text::from_templates(src, 6),
                1 => text::from_api(src, 3, 5, true).unwrap_or_default(),
                2 => {
                    let c = text::corpus();
                    if c.is_empty() {
                        String::new()
                    } else {
                        c[src.below(c.len())].clone()
                    }
                }
                _ => {
                    let alphabet = text::token_alphabet();
                    (0..src.below(12)).map(|_| *src.pick(&alphabet)).collect::<Vec<_>>().join(" ")
                }
            };
            for _ in 0..1 + src.below(3) {
                t = text::mutate(src, &t);
            }
            t
        };
        out.set_key(&t);
        out.nontrivial = t.split_whitespace().count() >= 2;
        if ctx.render {
            let shown: String = t.chars().take(400).collect();
            out.render = Some(format!("{shown:?}{}", if t.chars().count() > 400 { format!(" … ({} chars)", t.chars().count()) } else { String::new() }));
        }
        oracle(&t, out)
    }
    fn run_text(&self, text: &str, _ctx: &Ctx, out: &mut Outcome) -> Check {
        // `PROBE <kind> <depth>` stands for a nesting probe (kept out of the file because of its size)
        let t = if let Some(rest) = text.strip_prefix("PROBE ") {
            let mut it = rest.split_whitespace();
            let kind = it.next().and_then(|k| k.parse().ok()).unwrap_or(0);
            let depth = it.next().and_then(|k| k.parse().ok()).unwrap_or(1000);
            nesting_probe(kind, depth)
        } else {
            text.to_string()
        };
        out.set_key(&t);
        oracle(&t, out)
    }
    fn enumerate(&self, tier: Tier, shard: u64, nshards: u64, f: &mut dyn FnMut(Case) -> bool) {
        let n = text::token_alphabet().len() as u32;
        let mut counter = 0u64;
        let mut emit = |words: Vec<u32>, counter: &mut u64| -> bool {
            *counter += 1;
            if *counter % nshards != shard {
                return true;
            }
            f(Case::direct(words))
        };
        if !emit(vec![0, 0], &mut counter) {
            return;
        }
        for a in 0..n {
            if !emit(vec![0, 1, a], &mut counter) {
                return;
            }
            for b in 0..n {
                if !emit(vec![0, 2, a, b], &mut counter) {
                    return;
                }
            }
        }
        let m = tier.pick(SUB as u32, n);
        for a in 0..m {
            for b in 0..m {
                for c in 0..m {
                    if !emit(vec![0, 3, a, b, c], &mut counter) {
                        return;
                    }
                }
            }
        }
        let depths: &[u32] = match tier {
            Tier::Quick => &[8, 64, 512, 4096],
            Tier::Thorough => &[8, 64, 512, 4096, 20_000, 100_000],
        };
        for kind in 0..NPROBES as u32 {
            for d in depths {
                if !emit(vec![1, kind, *d], &mut counter) {
                    return;
                }
            }
        }
    }
    fn exhaustive_part(&self, tier: Tier) -> Option<String> {
        let n = text::token_alphabet().len() as u64;
        let m = tier.pick(SUB as u64, n);
        Some(format!("all {} token sequences of length <= 2 over {n} tokens, all {} of length 3 over {m} tokens, and 16 nesting probes at {} depths", 1 + n + n * n, m * m * m, tier.pick(4, 6)))
    }
    fn floors(&self) -> Vec<(&'static str, f64)> {
        vec![("program-parses", 0.05)]
    }
    fn watchdog_s(&self) -> u64 {
        60
    }
    fn classify_death(&self, how: &str, _case: &Case) -> Option<Failure> {
        // a hang is inconclusive; any other death of the worker is a crash of the parser
        if how == "hang" {
            None
        } else {
            Some(Failure { sig: format!("crash:{how}"), msg: format!("the worker process died while parsing: {how}") })
        }
    }
}
