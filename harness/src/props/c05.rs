//! C05 — Numeric literals are parsed to their exact value or rejected.
//!
//! Statement: "Every integer or real literal the lexer accepts, in any supported radix,
//! digit-separator or exponent form and with an optional sign, becomes an operand or expression
//! equal to the literal's mathematical value (reals rounded to nearest). Otherwise parsing fails.
//! A literal is never silently wrapped, truncated, or changed from real to integer."
//!
//! A case is (position, spelling). The one-instruction program is parsed and the field holding the
//! literal is read back by pattern matching. The expected value is computed from the spelling with
//! 128-bit integer arithmetic / Rust's correctly rounded `str::parse::<f64>` on the
//! separator-stripped text:
//!  * signed 64-bit operand positions: `LiteralInteger(v)` with v = sign·magnitude when that is in
//!    [−2^63, 2^63−1]; out of range ⇒ must be rejected;
//!  * unsigned 64-bit positions (qubit, memory index, DECLARE length, OFFSET, PRAGMA integer,
//!    permutation entry): the magnitude when ≤ 2^64−1, else rejected;
//!  * real-capable operand positions keep the kind: a real spelling gives `LiteralReal`, an integer
//!    spelling `LiteralInteger`; a real spelling in an integer-only operand position is rejected;
//!  * expression positions: the expression evaluates to sign·(nearest f64), exactly;
//!  * a real spelling whose value overflows to infinity must be rejected.
//! Rejection of a plain (separator-free) literal whose value is in range is also reported: the
//! statement's first sentence says such a literal *becomes* an operand.

use crate::engine::{lib, Case, Check, Ctx, Outcome, Property, Src, Tier};
use crate::{ensure, fail};
use quil_rs::expression::Expression;
use quil_rs::instruction::{
    ArithmeticOperand, AttributeValue, BinaryOperand, ComparisonOperand, GateSpecification, Instruction, PragmaArgument, Qubit, UnresolvedCallArgument,
};
use quil_rs::Program;
use std::collections::HashMap;
use std::str::FromStr;

pub struct C05Prop;
pub static C05: C05Prop = C05Prop;

#[derive(Clone, Copy, PartialEq, Debug)]
enum Kind {
    /// i64 operand that also accepts reals
    SignedOrReal,
    /// i64 operand, integers only
    SignedOnly,
    /// u64, no sign
    Unsigned,
    /// expression: compared by value
    Expr,
}

struct Position {
    name: &'static str,
    kind: Kind,
    /// text with `{}` where the literal goes
    template: &'static str,
}

const POSITIONS: [Position; 33] = [
    Position { name: "MOVE", kind: Kind::SignedOrReal, template: "MOVE ro {}" },
    Position { name: "ADD", kind: Kind::SignedOrReal, template: "ADD ro {}" },
    Position { name: "SUB", kind: Kind::SignedOrReal, template: "SUB ro[1] {}" },
    Position { name: "MUL", kind: Kind::SignedOrReal, template: "MUL ro {}" },
    Position { name: "DIV", kind: Kind::SignedOrReal, template: "DIV ro {}" },
    Position { name: "EQ", kind: Kind::SignedOrReal, template: "EQ b ro {}" },
    Position { name: "GT", kind: Kind::SignedOrReal, template: "GT b ro {}" },
    Position { name: "GE", kind: Kind::SignedOrReal, template: "GE b ro {}" },
    Position { name: "LT", kind: Kind::SignedOrReal, template: "LT b ro {}" },
    Position { name: "LE", kind: Kind::SignedOrReal, template: "LE b ro {}" },
    Position { name: "STORE", kind: Kind::SignedOrReal, template: "STORE ro idx {}" },
    Position { name: "AND", kind: Kind::SignedOnly, template: "AND ro {}" },
    Position { name: "IOR", kind: Kind::SignedOnly, template: "IOR ro {}" },
    Position { name: "XOR", kind: Kind::SignedOnly, template: "XOR ro {}" },
    Position { name: "qubit", kind: Kind::Unsigned, template: "X {}" },
    Position { name: "memory-index", kind: Kind::Unsigned, template: "MOVE ro[{}] 1" },
    Position { name: "declare-length", kind: Kind::Unsigned, template: "DECLARE ro INTEGER[{}]" },
    Position { name: "offset", kind: Kind::Unsigned, template: "DECLARE ro BIT SHARING other OFFSET {} BIT" },
    Position { name: "pragma-integer", kind: Kind::Unsigned, template: "PRAGMA P {}" },
    Position { name: "permutation-entry", kind: Kind::Unsigned, template: "DEFGATE G AS PERMUTATION:\n    {}, 1" },
    Position { name: "gate-parameter", kind: Kind::Expr, template: "RX({}) 0" },
    Position { name: "gate-parameter-infix", kind: Kind::Expr, template: "RX(0+{}) 0" },
    Position { name: "frame-attribute", kind: Kind::Expr, template: "DEFFRAME 0 \"f\":\n    SAMPLE-RATE: {}" },
    Position { name: "delay", kind: Kind::Expr, template: "DELAY 0 {}" },
    Position { name: "set-frequency", kind: Kind::Expr, template: "SET-FREQUENCY 0 \"f\" {}" },
    Position { name: "shift-phase", kind: Kind::Expr, template: "SHIFT-PHASE 0 \"f\" {}" },
    Position { name: "raw-capture-duration", kind: Kind::Expr, template: "RAW-CAPTURE 0 \"f\" {} ro" },
    Position { name: "waveform-parameter", kind: Kind::Expr, template: "PULSE 0 \"f\" flat(duration: {}, iq: 1)" },
    Position { name: "defgate-matrix-cell", kind: Kind::Expr, template: "DEFGATE G:\n    {}, 0\n    0, 1" },
    Position { name: "defcal-parameter", kind: Kind::Expr, template: "DEFCAL RX({}) 0:\n    NOP" },
    Position { name: "defwaveform-entry", kind: Kind::Expr, template: "DEFWAVEFORM w:\n    {}, 1" },
    Position { name: "call-immediate", kind: Kind::Expr, template: "CALL f {}" },
    Position { name: "SHL", kind: Kind::SignedOnly, template: "SHL ro {}" },
];

/// A generated spelling and what it denotes.
#[derive(Clone, Debug)]
struct Literal {
    text: String,
    negative: bool,
    /// magnitude for integer spellings (None = real spelling)
    magnitude: Option<u128>,
    /// true if no digit separators are used
    plain: bool,
    features: u32,
}

const BOUNDARY: [u128; 14] = [
    0,
    1,
    (1 << 31) - 1,
    1 << 31,
    (1 << 53) - 1,
    (1 << 53) + 1,
    (1 << 63) - 1,
    1 << 63,
    (1 << 63) + 1,
    (1 << 64) - 1,
    1 << 64,
    (1 << 64) + 1,
    255,
    1 << 70,
];

fn digits(mut m: u128, radix: u32, upper: bool) -> String {
    if m == 0 {
        return "0".into();
    }
    let mut v = vec![];
    while m > 0 {
        let d = (m % radix as u128) as u32;
        let c = std::char::from_digit(d, radix).unwrap();
        v.push(if upper { c.to_ascii_uppercase() } else { c });
        m /= radix as u128;
    }
    v.iter().rev().collect()
}

fn with_separators(src: &mut Src, s: &str) -> (String, bool) {
    // insert `_` or `__` between two digits, with probability 1/4 per gap
    let chars: Vec<char> = s.chars().collect();
    let mut out = String::new();
    let mut used = false;
    for (k, c) in chars.iter().enumerate() {
        out.push(*c);
        if k + 1 < chars.len() && c.is_ascii_hexdigit() && chars[k + 1].is_ascii_hexdigit() && src.chance(1, 4) {
            out.push('_');
            if src.chance(1, 4) {
                out.push('_');
            }
            used = true;
        }
    }
    (out, used)
}

fn integer_literal(src: &mut Src, magnitude: u128, radix_choice: usize, negative: bool, separators: bool, leading_zeros: usize) -> Literal {
    let (radix, prefix): (u32, &str) = match radix_choice {
        0 => (10, ""),
        1 => (2, "0b"),
        2 => (2, "0B"),
        3 => (8, "0o"),
        4 => (8, "0O"),
        5 => (16, "0x"),
        _ => (16, "0X"),
    };
    let upper = radix == 16 && radix_choice == 6;
    let mut body = format!("{}{}", "0".repeat(leading_zeros), digits(magnitude, radix, upper));
    let mut plain = true;
    if separators {
        let (b, used) = with_separators(src, &body);
        body = b;
        plain = !used;
    }
    let mut features = 0;
    if radix != 10 {
        features += 1;
    }
    if !plain {
        features += 1;
    }
    if negative {
        features += 1;
    }
    if magnitude > (1 << 53) {
        features += 1;
    }
    Literal { text: format!("{}{prefix}{body}", if negative { "-" } else { "" }), negative, magnitude: Some(magnitude), plain, features }
}

/// The 54 fraction digits of an odd multiple of 2^-54 in [0.5, 1) — exactly half-way between two
/// neighbouring doubles — nudged up (one more digit), down (…4 99) or left exact.
fn near_midpoint_fraction(src: &mut Src) -> String {
    let k = (1u64 << 52) + (((src.word() as u64) << 20) ^ src.word() as u64) % (1u64 << 52);
    let n = 2 * k + 1;
    // n * 5^54 in base 10^9, little endian
    let mut limbs: Vec<u64> = vec![n % 1_000_000_000, n / 1_000_000_000 % 1_000_000_000, n / 1_000_000_000_000_000_000];
    for _ in 0..54 {
        let mut carry = 0u64;
        for l in limbs.iter_mut() {
            let v = *l * 5 + carry;
            *l = v % 1_000_000_000;
            carry = v / 1_000_000_000;
        }
        if carry > 0 {
            limbs.push(carry);
        }
    }
    while limbs.len() > 1 && *limbs.last().unwrap() == 0 {
        limbs.pop();
    }
    let mut digits = format!("{}", limbs.last().unwrap());
    for l in limbs.iter().rev().skip(1) {
        digits.push_str(&format!("{l:09}"));
    }
    let mut digits = format!("{digits:0>54}");
    match src.below(3) {
        0 => digits.push('1'),
        1 => {
            // the last digit of an odd number times a power of five is 5
            digits.pop();
            digits.push_str("499");
        }
        _ => {}
    }
    digits
}

fn real_literal(src: &mut Src, negative: bool) -> Literal {
    let int_part = match src.below(5) {
        0 => String::new(),
        1 => "0".to_string(),
        2 => format!("{}", src.below(1000)),
        3 => "179769313486231570000".to_string(),
        _ => format!("{}", src.word()),
    };
    let frac_choice = src.below(6);
    let frac_part = match frac_choice {
        0 => String::new(),
        1 => "5".to_string(),
        2 => format!("{:03}", src.below(1000)),
        3 => "0000000000000000000000001".to_string(),
        // more significant digits than any shortcut of a float parser keeps (19 fit in a u64)
        4 => format!("{:010}{:010}{:010}", src.word(), src.word(), src.word()),
        // a hair above / below / exactly on the midpoint of two neighbouring doubles: the case in
        // which the digits beyond the 19th decide the rounding
        _ => near_midpoint_fraction(src),
    };
    let int_part = if frac_choice == 5 { "0".to_string() } else { int_part };
    // at least one digit somewhere
    let (int_part, frac_part) = if int_part.is_empty() && frac_part.is_empty() { ("1".to_string(), String::new()) } else { (int_part, frac_part) };
    let exponent = match src.below(8) {
        0 | 1 | 2 => String::new(),
        3 => format!("e{}", src.below(30)),
        4 => format!("E-{}", src.below(30)),
        5 => format!("e+{}", src.below(310)),
        6 => format!("e-{}", 300 + src.below(60)),
        _ => format!("e{}", 300 + src.below(20)),
    };
    // a real spelling needs a '.' or an exponent
    let dot = if exponent.is_empty() || src.chance(2, 3) { "." } else { "" };
    let mut text = format!("{int_part}{dot}{frac_part}{exponent}");
    let mut plain = true;
    if src.chance(1, 4) {
        let (t, used) = with_separators(src, &text);
        // keep separators away from the exponent marker's neighbourhood: only between decimal digits
        text = t;
        plain = !used;
    }
    let mut features = 0;
    if !exponent.is_empty() {
        features += 1;
    }
    if !plain {
        features += 1;
    }
    if negative {
        features += 1;
    }
    Literal { text: format!("{}{text}", if negative { "-" } else { "" }), negative, magnitude: None, plain, features }
}

/// What came back from the parser at the literal's position.
#[derive(Debug, PartialEq)]
enum Seen {
    Int(i128),
    Real(f64),
    Value(num_complex::Complex64),
    Other(String),
}

fn eval(e: &Expression) -> Seen {
    match e.evaluate(&HashMap::<String, num_complex::Complex64>::new(), &HashMap::<&str, Vec<f64>>::new()) {
        Ok(v) => Seen::Value(v),
        Err(err) => Seen::Other(format!("expression {e:?} does not evaluate: {err:?}")),
    }
}

fn observe(position: &Position, program: &Program) -> Seen {
    let listing = program.to_instructions();
    let Some(i) = listing.first() else { return Seen::Other("empty program".into()) };
    let arith = |o: &ArithmeticOperand| match o {
        ArithmeticOperand::LiteralInteger(v) => Seen::Int(*v as i128),
        ArithmeticOperand::LiteralReal(v) => Seen::Real(*v),
        other => Seen::Other(format!("{other:?}")),
    };
    match (position.name, i) {
        ("MOVE", Instruction::Move(m)) => arith(&m.source),
        ("ADD" | "SUB" | "MUL" | "DIV", Instruction::Arithmetic(a)) => arith(&a.source),
        ("EQ" | "GT" | "GE" | "LT" | "LE", Instruction::Comparison(c)) => match &c.rhs {
            ComparisonOperand::LiteralInteger(v) => Seen::Int(*v as i128),
            ComparisonOperand::LiteralReal(v) => Seen::Real(*v),
            other => Seen::Other(format!("{other:?}")),
        },
        ("STORE", Instruction::Store(s)) => arith(&s.source),
        ("AND" | "IOR" | "XOR" | "SHL", Instruction::BinaryLogic(b)) => match &b.source {
            BinaryOperand::LiteralInteger(v) => Seen::Int(*v as i128),
            other => Seen::Other(format!("{other:?}")),
        },
        ("qubit", Instruction::Gate(g)) => match g.qubits.first() {
            Some(Qubit::Fixed(q)) => Seen::Int(*q as i128),
            other => Seen::Other(format!("{other:?}")),
        },
        ("memory-index", Instruction::Move(m)) => Seen::Int(m.destination.index as i128),
        ("declare-length", Instruction::Declaration(d)) => Seen::Int(d.size.length as i128),
        ("offset", Instruction::Declaration(d)) => match d.sharing.as_ref().and_then(|s| s.offsets.first()) {
            Some(o) => Seen::Int(o.offset as i128),
            None => Seen::Other("no offset".into()),
        },
        ("pragma-integer", Instruction::Pragma(p)) => match p.arguments.first() {
            Some(PragmaArgument::Integer(v)) => Seen::Int(*v as i128),
            other => Seen::Other(format!("{other:?}")),
        },
        ("permutation-entry", Instruction::GateDefinition(g)) => match &g.specification {
            GateSpecification::Permutation(p) => p.first().map(|v| Seen::Int(*v as i128)).unwrap_or(Seen::Other("empty".into())),
            other => Seen::Other(format!("{other:?}")),
        },
        ("gate-parameter" | "gate-parameter-infix", Instruction::Gate(g)) => g.parameters.first().map(eval).unwrap_or(Seen::Other("no parameter".into())),
        ("frame-attribute", Instruction::FrameDefinition(f)) => match f.attributes.get("SAMPLE-RATE") {
            Some(AttributeValue::Expression(e)) => eval(e),
            other => Seen::Other(format!("{other:?}")),
        },
        ("delay", Instruction::Delay(d)) => eval(&d.duration),
        ("set-frequency", Instruction::SetFrequency(s)) => eval(&s.frequency),
        ("shift-phase", Instruction::ShiftPhase(s)) => eval(&s.phase),
        ("raw-capture-duration", Instruction::RawCapture(r)) => eval(&r.duration),
        ("waveform-parameter", Instruction::Pulse(p)) => p.waveform.parameters.get("duration").map(eval).unwrap_or(Seen::Other("no duration".into())),
        ("defgate-matrix-cell", Instruction::GateDefinition(g)) => match &g.specification {
            GateSpecification::Matrix(m) => m.first().and_then(|r| r.first()).map(eval).unwrap_or(Seen::Other("empty".into())),
            other => Seen::Other(format!("{other:?}")),
        },
        ("defcal-parameter", Instruction::CalibrationDefinition(c)) => c.identifier.parameters.first().map(eval).unwrap_or(Seen::Other("no parameter".into())),
        ("defwaveform-entry", Instruction::WaveformDefinition(w)) => w.definition.matrix.first().map(eval).unwrap_or(Seen::Other("empty".into())),
        ("call-immediate", Instruction::Call(c)) => match c.arguments.first() {
            Some(UnresolvedCallArgument::Immediate(v)) => Seen::Value(*v),
            other => Seen::Other(format!("{other:?}")),
        },
        (_, other) => Seen::Other(format!("unexpected instruction {other:?}")),
    }
}

fn oracle(pos_index: usize, lit: &Literal, out: &mut Outcome) -> Check {
    let position = &POSITIONS[pos_index];
    let text = position.template.replace("{}", &lit.text);
    out.class(match position.kind {
        Kind::SignedOrReal => "signed-or-real-operand",
        Kind::SignedOnly => "signed-integer-operand",
        Kind::Unsigned => "unsigned-position",
        Kind::Expr => "expression-position",
    });
    out.nontrivial = lit.features >= 2;
    let parsed = lib(|| Program::from_str(&text))?;
    let seen = match &parsed {
        Ok(p) => Some(lib(|| observe(position, p))?),
        Err(_) => None,
    };
    let stripped: String = lit.text.strip_prefix('-').unwrap_or(&lit.text).chars().filter(|c| *c != '_').collect();
    let sign = if lit.negative { -1.0 } else { 1.0 };
    match lit.magnitude {
        Some(mag) => {
            let signed: i128 = if lit.negative { -(mag as i128) } else { mag as i128 };
            let fits_lexer = mag <= u64::MAX as u128;
            let (expected, in_range): (Seen, bool) = match position.kind {
                Kind::SignedOrReal | Kind::SignedOnly => (Seen::Int(signed), fits_lexer && signed >= i64::MIN as i128 && signed <= i64::MAX as i128),
                Kind::Unsigned => (Seen::Int(mag as i128), fits_lexer && !lit.negative),
                Kind::Expr => (Seen::Value(num_complex::Complex64::new(sign * (mag as f64), 0.0)), fits_lexer),
            };
            out.class(if in_range { "integer-in-range" } else { "integer-out-of-range" });
            match seen {
                None => {
                    // a sign in front of an unsigned position is simply not a literal there
                    // CALL immediates take no sign in the grammar (C04 covers what the writer emits there)
                    let must_accept = in_range && lit.plain && !(position.name == "call-immediate" && lit.negative);
                    ensure!(
                        !must_accept,
                        format!("c05:rejects-in-range-literal:{}", position.name),
                        "{text:?} is rejected although {} is in range for {}: {}",
                        lit.text,
                        position.name,
                        parsed.as_ref().err().map(|e| e.to_string()).unwrap_or_default()
                    );
                    out.class("rejected");
                }
                Some(got) => {
                    if !in_range {
                        let how = match (&got, position.kind) {
                            (Seen::Int(g), _) if mag > u64::MAX as u128 || *g != signed => format!("wrapped to {g}"),
                            _ => format!("{got:?}"),
                        };
                        fail!(
                            format!("c05:accepts-out-of-range:{}", kind_name(position.kind)),
                            "{text:?}: {} is out of range for {} but was accepted ({how})",
                            lit.text,
                            position.name
                        );
                    }
                    if got != expected {
                        let sig = match (&got, position.kind) {
                            (Seen::Real(_), _) => "c05:integer-became-real".to_string(),
                            (Seen::Int(_), _) => format!("c05:wrong-integer-value:{}", kind_name(position.kind)),
                            _ => format!("c05:wrong-value:{}", kind_name(position.kind)),
                        };
                        fail!(sig, "{text:?}: expected {expected:?} at {}, found {got:?}", position.name);
                    }
                    out.class("accepted");
                }
            }
        }
        None => {
            // real spelling
            let value: f64 = match stripped.parse::<f64>() {
                Ok(v) => v,
                Err(_) => fail!("harness:c05-real-spelling", "{stripped:?} is not a float spelling"),
            };
            let overflow = value.is_infinite();
            out.class(if overflow { "real-overflow" } else { "real" });
            match seen {
                None => {
                    let integer_only = matches!(position.kind, Kind::SignedOnly | Kind::Unsigned);
                    // the lexer reads the digits before '.' / 'e' as a 64-bit integer first and gives up on
                    // overflow there; such a spelling is "not accepted by the lexer", so rejection is fine
                    let integer_part: String = stripped.chars().take_while(|c| c.is_ascii_digit()).collect();
                    let lexable = integer_part.is_empty() || integer_part.parse::<u64>().is_ok();
                    let must_accept = !overflow && lit.plain && lexable && !integer_only && !(position.name == "call-immediate" && lit.negative);
                    ensure!(
                        !must_accept,
                        format!("c05:rejects-in-range-literal:{}", position.name),
                        "{text:?} is rejected although {} is a finite real: {}",
                        lit.text,
                        parsed.as_ref().err().map(|e| e.to_string()).unwrap_or_default()
                    );
                    out.class("rejected");
                }
                Some(got) => {
                    ensure!(!overflow, "c05:accepts-overflowing-real", "{text:?}: {} overflows f64 but was accepted as {got:?}", lit.text);
                    let expected_value = sign * value;
                    let ok = match (&got, position.kind) {
                        (Seen::Real(g), Kind::SignedOrReal) => g.to_bits() == expected_value.to_bits() || (*g == 0.0 && expected_value == 0.0),
                        (Seen::Value(g), Kind::Expr) => g.im == 0.0 && (g.re == expected_value),
                        _ => false,
                    };
                    if !ok {
                        let sig = match (&got, position.kind) {
                            (Seen::Int(_), _) => "c05:real-became-integer".to_string(),
                            (_, Kind::SignedOnly | Kind::Unsigned) => format!("c05:real-accepted-in-integer-position:{}", position.name),
                            _ => format!("c05:wrong-real-value:{}", kind_name(position.kind)),
                        };
                        fail!(sig, "{text:?}: expected the real {expected_value:e} at {}, found {got:?}", position.name);
                    }
                    out.class("accepted");
                }
            }
        }
    }
    Ok(())
}

fn kind_name(k: Kind) -> &'static str {
    match k {
        Kind::SignedOrReal | Kind::SignedOnly => "signed-operand",
        Kind::Unsigned => "unsigned-position",
        Kind::Expr => "expression",
    }
}

impl Property for C05Prop {
    fn id(&self) -> &'static str {
        "C05"
    }
    fn rule(&self) -> &'static str {
        "exhaustive boundary table: magnitudes {0, 1, 255, 2^31-1, 2^31, 2^53-1, 2^53+1, 2^63-1, 2^63, 2^63+1, 2^64-1, 2^64, 2^64+1, 2^70} x 7 radix spellings (decimal, 0b/0B, 0o/0O, 0x lower / 0X upper) x sign x 33 positions (MOVE/ADD/SUB/MUL/DIV/STORE sources, EQ/GT/GE/LT/LE right-hand sides, AND/IOR/XOR/SHL sources, qubit, memory index, DECLARE length, OFFSET, PRAGMA integer, permutation entry, gate / DEFCAL parameter, frame attribute, DELAY, SET-FREQUENCY, SHIFT-PHASE, RAW-CAPTURE duration, waveform parameter, DEFGATE matrix cell, DEFWAVEFORM entry, CALL immediate); random: integer spellings of random magnitudes up to 80 bits with leading zeros and '_' / '__' separators between digits, and decimal real spellings (empty / short / 21-digit integer parts; fractions: empty, short, 25 digits, 30 random digits, or the 54 digits of an odd multiple of 2^-54 in [0.5, 1) — the midpoint of two neighbouring doubles — exact, nudged up or nudged down; exponents e/E with +/- up to 319; separators) in the same positions. Non-trivial = the spelling uses >= 2 of {radix prefix, separator, exponent, sign, magnitude > 2^53}; distinct by (position, spelling)."
    }
    fn max_words(&self) -> usize {
        120
    }
    fn cases(&self, tier: Tier) -> u64 {
        tier.pick(80_000, 1_500_000)
    }
    fn run(&self, src: &mut Src, ctx: &Ctx, out: &mut Outcome) -> Check {
        let position = src.below(POSITIONS.len());
        let lit = if src.is_direct() {
            let m = BOUNDARY[src.below(BOUNDARY.len())];
            let radix = src.below(7);
            let negative = src.below(2) == 1;
            integer_literal(src, m, radix, negative, false, 0)
        } else if src.chance(3, 5) {
            let m: u128 = match src.below(6) {
                0 => *src.pick(&BOUNDARY),
                1 => src.below(1 << 16) as u128,
                2 => src.word() as u128,
                3 => ((src.word() as u128) << 32) | src.word() as u128,
                4 => (1u128 << 63) - 2 + src.below(5) as u128,
                _ => (((src.word() as u128) << 64) | ((src.word() as u128) << 32) | src.word() as u128) & ((1 << 80) - 1),
            };
            let radix = src.weighted(&[4, 1, 1, 1, 1, 2, 2]);
            let negative = src.chance(1, 3);
            let zeros = if src.chance(1, 5) { 1 + src.below(3) } else { 0 };
            let seps = src.chance(1, 3);
            integer_literal(src, m, radix, negative, seps, zeros)
        } else {
            let negative = src.chance(1, 3);
            real_literal(src, negative)
        };
        let text = POSITIONS[position].template.replace("{}", &lit.text);
        out.set_key(&text);
        if ctx.render {
            out.render = Some(format!("{text:?}"));
        }
        oracle(position, &lit, out)
    }
    /// `<position name> <spelling>`
    fn run_text(&self, text: &str, _ctx: &Ctx, out: &mut Outcome) -> Check {
        let (pos, spelling) = text.trim().split_once(' ').unwrap_or((text, "0"));
        let Some(position) = POSITIONS.iter().position(|p| p.name == pos) else { fail!("harness:c05-text", "unknown position {pos:?}") };
        let negative = spelling.starts_with('-');
        let body = spelling.trim_start_matches('-');
        let lower = body.to_ascii_lowercase().replace('_', "");
        let magnitude = if let Some(h) = lower.strip_prefix("0x") {
            u128::from_str_radix(h, 16).ok()
        } else if let Some(b) = lower.strip_prefix("0b") {
            u128::from_str_radix(b, 2).ok()
        } else if let Some(o) = lower.strip_prefix("0o") {
            u128::from_str_radix(o, 8).ok()
        } else if lower.chars().all(|c| c.is_ascii_digit()) {
            lower.parse::<u128>().ok()
        } else {
            None
        };
        let lit = Literal { text: spelling.to_string(), negative, magnitude, plain: !spelling.contains('_'), features: 2 };
        out.set_key(text);
        oracle(position, &lit, out)
    }
    fn enumerate(&self, _tier: Tier, shard: u64, nshards: u64, f: &mut dyn FnMut(Case) -> bool) {
        let mut counter = 0u64;
        for position in 0..POSITIONS.len() {
            for m in 0..BOUNDARY.len() {
                for radix in 0..7 {
                    for neg in 0..2 {
                        counter += 1;
                        if counter % nshards != shard {
                            continue;
                        }
                        if !f(Case::direct(vec![position as u32, m as u32, radix, neg])) {
                            return;
                        }
                    }
                }
            }
        }
    }
    fn exhaustive_part(&self, _tier: Tier) -> Option<String> {
        Some(format!("all {} (position, boundary magnitude, radix spelling, sign) combinations", POSITIONS.len() * BOUNDARY.len() * 7 * 2))
    }
    fn floors(&self) -> Vec<(&'static str, f64)> {
        vec![("accepted", 0.3), ("rejected", 0.1), ("integer-out-of-range", 0.05), ("real", 0.2), ("real-overflow", 0.005)]
    }
}
