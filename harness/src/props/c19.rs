//! C19 — The calibration source map exactly accounts for every expansion.
//!
//! Statement: "The source map from calibration expansion has at most one entry per source body
//! instruction, in source order. An unmodified entry points to an identical instruction in the
//! output, and rewritten ranges are contiguous, disjoint, and together with the unmodified entries
//! cover the output body exactly. Nested expansion records are relative to their parent range and
//! consistent with it, so querying sources of a target and targets of a source are inverse."
//!
//! Oracle: validity predicates over (expanded program, map), using the reference expander's tree
//! for what each range must contain. Conventions (rustdoc of `CalibrationExpansion`, confirmed by
//! the crate's own snapshot tests): top-level ranges index the output body; nested ranges and
//! nested unmodified targets are relative to the start of the parent's range; nested source
//! indices index the body of the calibration that was used.

use super::c17::{build, model_expand, texts};
use crate::engine::{lib, Check, Ctx, Failure, Outcome, Property, Src, Tier};
use crate::gen::calprog::{self, CalOpts};
use crate::model::cal::{self, CalSet, Child, Expansion, Tree};
use crate::{ensure, fail};
use quil_rs::instruction::Instruction;
use quil_rs::program::{CalibrationExpansion, CalibrationSource, ExpansionResult, InstructionIndex};
use quil_rs::quil::Quil;

pub struct C19Prop;
pub static C19: C19Prop = C19Prop;

fn body_only(list: &[Instruction]) -> Vec<Instruction> {
    list.iter().filter(|i| cal::is_body_instruction(i)).cloned().collect()
}

/// Check one expansion record against the model tree. `abs_start` is the absolute output index
/// where this record's range starts.
fn check_expansion(
    text: &str,
    set: &CalSet,
    e: &CalibrationExpansion,
    abs_start: usize,
    abs_end: usize,
    model_out: &[Instruction],
    tree: &Tree,
    output: &[Instruction],
    depth: usize,
    out: &mut Outcome,
) -> Check {
    let expected = body_only(model_out);
    ensure!(
        abs_end - abs_start == expected.len(),
        "c19:range-length",
        "[{text}]: a rewritten range [{abs_start}, {abs_end}) at depth {depth} should hold {} instruction(s)",
        expected.len()
    );
    ensure!(abs_end <= output.len(), "c19:range-out-of-bounds", "[{text}]: range [{abs_start}, {abs_end}) exceeds the output body of {}", output.len());
    ensure!(
        output[abs_start..abs_end] == expected[..],
        "c19:range-content",
        "[{text}]: output[{abs_start}..{abs_end}] = [{}] but the expansion produced [{}]",
        texts(&output[abs_start..abs_end]),
        texts(&expected)
    );
    // which calibration
    let used_ok = match (e.calibration_used(), tree.gate_cal, tree.measure_cal) {
        (CalibrationSource::Calibration(id), Some(k), _) => *id == set.gates[k].identifier,
        (CalibrationSource::MeasureCalibration(id), _, Some(k)) => *id == set.measures[k].identifier,
        _ => false,
    };
    ensure!(used_ok, "c19:calibration-used", "[{text}]: the record at [{abs_start}, {abs_end}) names the wrong calibration: {:?}", e.calibration_used());
    // nested records
    let nested = e.expansions().entries();
    let mut last_source: Option<usize> = None;
    let mut cursor = abs_start; // next uncovered absolute position
    let mut entry_iter = nested.iter().peekable();
    for (k, child) in tree.children.iter().enumerate() {
        let child_out: Vec<Instruction> = match child {
            Child::Unchanged(i) => body_only(std::slice::from_ref(i)),
            Child::Expanded(list, _) => body_only(list),
        };
        let entry = match entry_iter.peek() {
            Some(en) if en.source_location().0 == k => entry_iter.next(),
            _ => None,
        };
        if let Some(en) = entry {
            if let Some(l) = last_source {
                ensure!(en.source_location().0 > l, "c19:nested-source-order", "[{text}]: nested source indices not increasing");
            }
            last_source = Some(en.source_location().0);
        }
        if child_out.is_empty() {
            // nothing of this body instruction reached the output (hoisted DECLARE, or an expansion
            // that was hoisted entirely): an entry, if present, must not claim any output position
            out.class("hoisted-inside-expansion");
            out.nontrivial = true;
            if let Some(en) = entry {
                match en.target_location() {
                    ExpansionResult::Unmodified(t) => fail!(
                        "c19:nested-entry-for-hoisted",
                        "[{text}]: nested entry for calibration-body instruction {k}, which does not reach the output body, still points at relative target {}",
                        t.0
                    ),
                    ExpansionResult::Rewritten(r) => ensure!(
                        r.range().start == r.range().end,
                        "c19:nested-entry-for-hoisted",
                        "[{text}]: nested expansion of calibration-body instruction {k} produced no body instruction but claims range {:?}",
                        r.range()
                    ),
                }
            }
            continue;
        }
        let Some(en) = entry else {
            fail!("c19:nested-entry-missing", "[{text}]: no nested entry for calibration-body instruction {k} although it produced [{}]", texts(&child_out));
        };
        match (en.target_location(), child) {
            (ExpansionResult::Unmodified(t), Child::Unchanged(i)) => {
                let abs = abs_start + t.0;
                ensure!(abs == cursor, "c19:nested-unmodified-position", "[{text}]: nested unmodified entry for body instruction {k} points at absolute {abs}, expected {cursor}");
                ensure!(output.get(abs) == Some(i), "c19:nested-unmodified-content", "[{text}]: nested unmodified target {abs} is not {}", i.to_quil_or_debug());
                cursor += 1;
            }
            (ExpansionResult::Rewritten(r), Child::Expanded(list, t)) => {
                out.class("nested-expansion");
                out.nontrivial = true;
                let (cs, ce) = (abs_start + r.range().start.0, abs_start + r.range().end.0);
                ensure!(cs == cursor, "c19:nested-range-position", "[{text}]: nested range for body instruction {k} starts at absolute {cs}, expected {cursor} (relative range {:?})", r.range());
                ensure!(ce >= cs && ce <= abs_end, "c19:nested-range-outside-parent", "[{text}]: nested range [{cs}, {ce}) leaves its parent [{abs_start}, {abs_end})");
                check_expansion(text, set, r, cs, ce, list, t, output, depth + 1, out)?;
                cursor = ce;
            }
            (got, _) => fail!("c19:nested-entry-kind", "[{text}]: nested entry for body instruction {k} has the wrong kind: {got:?}"),
        }
    }
    ensure!(entry_iter.next().is_none(), "c19:nested-extra-entry", "[{text}]: nested map has an entry for a source index that does not exist or is out of order");
    ensure!(cursor == abs_end, "c19:nested-cover", "[{text}]: nested entries cover up to {cursor} of the parent range [{abs_start}, {abs_end})");
    // inverse queries on the nested map, in parent-relative indices
    for rel in 0..abs_end - abs_start {
        let sources: Vec<usize> = lib(|| e.expansions().list_sources(&InstructionIndex(rel)).into_iter().map(|s| s.0).collect())?;
        ensure!(
            sources.len() == 1,
            "c19:nested-list-sources",
            "[{text}]: inside the range [{abs_start}, {abs_end}) the nested map gives sources {sources:?} for relative target {rel}"
        );
        let targets = lib(|| e.expansions().list_targets(&InstructionIndex(sources[0])).len())?;
        ensure!(targets == 1, "c19:nested-list-targets", "[{text}]: nested list_targets({}) returned {targets} entries", sources[0]);
    }
    Ok(())
}

// ---------------------------------------------------------------------------------------------
// Known finding c19-hoist-nested-records: what `CalibrationExpansion::remove_target_index` leaves
// behind. The structure below re-states the library's bookkeeping (pre-hoist nested records, then
// one removal per hoisted instruction) so that a failure inside an expansion that hoists something
// is attributed to the finding only when the map is *exactly* this; anything else is reported.

#[derive(Clone, Debug, PartialEq)]
struct Rec {
    start: usize,
    end: usize,
    entries: Vec<(usize, Loc)>,
}

#[derive(Clone, Debug, PartialEq)]
enum Loc {
    U(usize),
    R(Rec),
}

fn of_library(e: &CalibrationExpansion) -> Rec {
    Rec {
        start: e.range().start.0,
        end: e.range().end.0,
        entries: e
            .expansions()
            .entries()
            .iter()
            .map(|en| {
                (
                    en.source_location().0,
                    match en.target_location() {
                        ExpansionResult::Unmodified(t) => Loc::U(t.0),
                        ExpansionResult::Rewritten(r) => Loc::R(of_library(r)),
                    },
                )
            })
            .collect(),
    }
}

/// Nested records as first built, counting every expanded instruction (hoisted ones included).
fn pre_hoist(tree: &Tree) -> Rec {
    let mut len = 0usize;
    let mut entries = vec![];
    for (k, c) in tree.children.iter().enumerate() {
        match c {
            Child::Unchanged(_) => {
                entries.push((k, Loc::U(len)));
                len += 1;
            }
            Child::Expanded(list, t) => {
                let mut r = pre_hoist(t);
                r.start = len;
                len += list.len();
                r.end = len;
                entries.push((k, Loc::R(r)));
            }
        }
    }
    Rec { start: 0, end: len, entries }
}

fn remove_target_index(rec: &mut Rec, t: usize) {
    if rec.start >= t {
        rec.start = rec.start.saturating_sub(1);
    }
    if rec.end > t {
        rec.end = rec.end.saturating_sub(1);
    }
    if let Some(within) = t.checked_sub(rec.start) {
        rec.entries.retain_mut(|(_, loc)| match loc {
            Loc::R(r) => {
                remove_target_index(r, within);
                r.start < r.end
            }
            Loc::U(_) => true,
        });
    }
}

fn as_remove_target_index_leaves_it(list: &[Instruction], tree: &Tree, abs_start: usize) -> Rec {
    let mut rec = pre_hoist(tree);
    let mut added = 0usize;
    for i in list {
        if cal::is_body_instruction(i) {
            added += 1;
        } else {
            remove_target_index(&mut rec, added);
        }
    }
    rec.start = abs_start;
    rec.end = abs_start + added;
    rec
}

pub const HOIST_SIG: &str = "c19:nested-records-after-hoist";

impl Property for C19Prop {
    fn id(&self) -> &'static str {
        "C19"
    }
    fn rule(&self) -> &'static str {
        "the C17 program generator (non-recursive programs only): calibrations with nesting, parameters, measure calibrations and DECLAREs inside bodies (hoisted out of the output). Non-trivial = some rewritten entry has a nested expansion or a hoisted instruction inside it; distinct by program text."
    }
    fn max_words(&self) -> usize {
        700
    }
    fn cases(&self, tier: Tier) -> u64 {
        tier.pick(300_000, 12_000_000)
    }
    fn run(&self, src: &mut Src, ctx: &Ctx, out: &mut Outcome) -> Check {
        let opts = CalOpts { growth: false, max_cals: ctx.tier.pick(4, 6), max_body: 4 };
        let g = calprog::generate(src, &opts, 5);
        check(&g.definitions, &g.body, ctx, out)
    }
    fn run_text(&self, text: &str, ctx: &Ctx, out: &mut Outcome) -> Check {
        let (defs, body) = super::c17::split_text(text)?;
        check(&defs, &body, ctx, out)
    }
    fn floors(&self) -> Vec<(&'static str, f64)> {
        vec![("nested-expansion", 0.02), ("hoisted-inside-expansion", 0.01), ("rewritten", 0.15)]
    }
}

fn check(definitions: &[Instruction], top: &[Instruction], ctx: &Ctx, out: &mut Outcome) -> Check {
    let text = format!("{} ;; {}", texts(definitions), texts(top));
    out.set_key(&text);
    if ctx.render {
        out.render = Some(text.clone());
    }
    let (program, set) = build(definitions, top);
    let model = match model_expand(&set, top) {
        Ok(m) => m,
        Err(_) => {
            out.skip = Some("recursive-per-model");
            return Ok(());
        }
    };
    let (expanded, map) = match lib(|| program.expand_calibrations_with_source_map())? {
        Ok(x) => x,
        Err(e) => fail!("c19:error", "[{text}]: expand_calibrations_with_source_map failed: {e}"),
    };
    let output: Vec<Instruction> = expanded.body_instructions().cloned().collect();
    ensure!(output == model.body, "c19:body-differs-from-model", "[{text}]: expanded body [{}] differs from the reference [{}] (see C17)", texts(&output), texts(&model.body));
    let entries = map.entries();
    // top level: at most one entry per source, in source order, covering the output exactly
    let mut cursor = 0usize;
    let mut entry_iter = entries.iter().peekable();
    let mut last: Option<usize> = None;
    for (s, ex) in model.per_source.iter().enumerate() {
        let produced: Vec<Instruction> = match ex {
            Expansion::Unchanged => vec![top[s].clone()],
            Expansion::Expanded(list, _) => body_only(list),
        };
        let entry = match entry_iter.peek() {
            Some(en) if en.source_location().0 == s => entry_iter.next(),
            _ => None,
        };
        if let Some(en) = entry {
            if let Some(l) = last {
                ensure!(en.source_location().0 > l, "c19:source-order", "[{text}]: source indices not strictly increasing");
            }
            last = Some(en.source_location().0);
        }
        if produced.is_empty() {
            out.class("fully-hoisted-source");
            if let Some(en) = entry {
                match en.target_location() {
                    ExpansionResult::Rewritten(r) => ensure!(r.range().start == r.range().end, "c19:entry-for-empty-expansion", "[{text}]: source {s} produced nothing but claims {:?}", r.range()),
                    ExpansionResult::Unmodified(t) => fail!("c19:entry-for-empty-expansion", "[{text}]: source {s} produced nothing but is mapped to {}", t.0),
                }
            }
            continue;
        }
        let Some(en) = entry else {
            fail!("c19:entry-missing", "[{text}]: no entry for source instruction {s}, which produced [{}]", texts(&produced));
        };
        match (en.target_location(), ex) {
            (ExpansionResult::Unmodified(t), Expansion::Unchanged) => {
                ensure!(t.0 == cursor, "c19:unmodified-position", "[{text}]: source {s} is unmodified and should be at output {cursor}, map says {}", t.0);
                ensure!(output.get(t.0) == Some(&top[s]), "c19:unmodified-content", "[{text}]: output[{}] is not the unmodified source instruction {s}", t.0);
                cursor += 1;
            }
            (ExpansionResult::Rewritten(r), Expansion::Expanded(list, tree)) => {
                out.class("rewritten");
                let (rs, re) = (r.range().start.0, r.range().end.0);
                ensure!(rs == cursor, "c19:range-position", "[{text}]: source {s} is rewritten into [{rs}, {re}) but the next uncovered output index is {cursor}");
                ensure!(re >= rs, "c19:range-negative", "[{text}]: range {:?}", r.range());
                let mut verdict = check_expansion(&text, &set, r, rs, re, list, tree, &output, 0, out);
                if list.iter().any(|i| !cal::is_body_instruction(i)) {
                    out.class("hoisting-expansion");
                    if let Err(f) = &verdict {
                        if of_library(r) == as_remove_target_index_leaves_it(list, tree, rs) {
                            verdict = Err(Failure {
                                sig: HOIST_SIG.to_string(),
                                msg: format!(
                                    "the nested records of source {s} are what remove_target_index leaves after hoisting an instruction out of the expansion, not what the output holds: {} [{}]",
                                    f.msg, f.sig
                                ),
                            });
                        }
                    }
                }
                // a failure that belongs to an active known finding is counted; the other entries
                // and the inverse queries of this case are still checked
                ctx.tolerate(out, verdict)?;
                cursor = re;
            }
            (got, _) => fail!("c19:entry-kind", "[{text}]: entry for source {s} has the wrong kind: {got:?}"),
        }
    }
    ensure!(entry_iter.next().is_none(), "c19:extra-entry", "[{text}]: the map has an entry for a source index that does not exist or is out of order");
    ensure!(cursor == output.len(), "c19:cover", "[{text}]: entries cover {cursor} of {} output instructions", output.len());
    // inverse queries
    for t in 0..output.len() {
        let sources: Vec<usize> = lib(|| map.list_sources(&InstructionIndex(t)).into_iter().map(|s| s.0).collect())?;
        let expected: Vec<usize> = entries
            .iter()
            .filter(|en| match en.target_location() {
                ExpansionResult::Unmodified(x) => x.0 == t,
                ExpansionResult::Rewritten(r) => r.range().start.0 <= t && t < r.range().end.0,
            })
            .map(|en| en.source_location().0)
            .collect();
        ensure!(sources == expected, "c19:list-sources", "[{text}]: list_sources({t}) = {sources:?}, entries covering it: {expected:?}");
        ensure!(sources.len() == 1, "c19:target-without-unique-source", "[{text}]: output instruction {t} has sources {sources:?}");
        let s = sources[0];
        let targets = lib(|| map.list_targets(&InstructionIndex(s)).len())?;
        ensure!(targets == 1, "c19:list-targets", "[{text}]: list_targets({s}) returned {targets} entries");
    }
    Ok(())
}
