//! C35 — Dead-code removal keeps execution and removes exactly unused definitions.
//!
//! Statement: "Simplifying a program yields the calibration-expanded body and no calibrations. It
//! keeps exactly the frames used by that body, the waveforms it invokes and the extern pragmas it
//! calls, and leaves declarations, gate definitions and circuits unchanged. Every computed block
//! schedule is the same as for the expanded program."
//!
//! With S = `simplify(&DefaultHandler)` and E = `expand_calibrations()` of the same program:
//!  (a) `S.body == E.body`, `S.calibrations` empty;
//!  (b) frames of S = the frames of the original that the reference frame matcher
//!      (`model::frames`, C26's rules) reports as *used* by some instruction of E's body, with the
//!      original attributes;
//!  (c) waveform definitions of S = those whose name a PULSE/CAPTURE of E's body invokes;
//!  (d) extern pragmas of S = the named ones some CALL of E's body names;
//!  (e) declarations, gate definitions and circuits of S equal E's;
//!  (f) per block, `as_schedule_seconds` of S and of E both fail or give the same items and duration.
//!      A schedule that only the simplified program has (the expanded one fails, e.g. on a dead
//!      malformed PRAGMA EXTERN) is not compared: the statement speaks of computed schedules.
//! `simplify` erroring while `expand_calibrations` succeeds (or the reverse) is a violation.

use crate::engine::{lib, Check, Ctx, Outcome, Property, Src, Tier};
use crate::gen::defs::{self, Kind};
use crate::gen::rfprog::{self, Opts};
use crate::gen::{classical, rf};
use crate::model::frames as fmodel;
use crate::{ensure, fail};
use quil_rs::instruction::{
    Call, DefaultHandler, InstructionHandler, Declaration, FrameIdentifier, Gate, Instruction, Qubit, ScalarType, UnresolvedCallArgument, Vector, Waveform, WaveformDefinition,
};
use quil_rs::program::scheduling::ScheduledProgram;
use quil_rs::quil::Quil;
use quil_rs::Program;
use std::collections::BTreeSet;

pub struct C35Prop;
pub static C35: C35Prop = C35Prop;

fn gate(name: &str, q: u64) -> Instruction {
    Instruction::Gate(Gate::new(name, vec![], vec![Qubit::Fixed(q)], vec![]).unwrap())
}

pub struct Generated {
    pub program: Program,
    pub frames: Vec<FrameIdentifier>,
    pub text: String,
}

fn cal_body(src: &mut Src, opts: &Opts) -> String {
    let n = 1 + src.below(3);
    let mut lines = vec![];
    for _ in 0..n {
        let i = match src.below(6) {
            0 => Instruction::Declaration(Declaration { name: "tmp".into(), size: Vector { data_type: ScalarType::Bit, length: 1 }, sharing: None }),
            1 => rf::pulse(src.chance(1, 2), &rfprog::nameable_frames()[src.below(5)], rf::waveform(*src.pick(&["wa", "wb", "custom4", "fa"]), &[])),
            2 => Instruction::Call(Call::try_new(src.pick(&["fa", "fb", "wb"]).to_string(), vec![UnresolvedCallArgument::MemoryReference(rf::mref("ra", 0))]).unwrap()),
            _ => rfprog::rf_instruction(src, opts),
        };
        lines.push(format!("    {}", i.to_quil_or_debug()));
    }
    lines.join("\n")
}

pub fn generate(src: &mut Src, tier: Tier) -> Generated {
    let opts = Opts { classical: true, control_flow: true, reset: true, rf_memory: true, timed_only: false, define_pct: 60, max_len: tier.pick(7, 12) };
    let base = rfprog::generate(src, &opts);
    let mut instrs: Vec<Instruction> = base.program.to_instructions().into_iter().filter(|i| defs::classify(i).0 != Kind::Body).collect();
    let mut body = base.body.clone();
    // declarations of the regions the generator uses
    for r in rfprog::REGIONS.iter().chain(["ro"].iter()) {
        if src.chance(3, 4) {
            instrs.push(Instruction::Declaration(Declaration { name: r.to_string(), size: Vector { data_type: ScalarType::Real, length: 3 }, sharing: None }));
        }
    }
    // waveform definitions, some never invoked
    // ("fa" is also the name of an extern: the two name spaces are independent)
    for name in ["wa", "wb", "wc", "fa"] {
        if src.chance(2, 3) {
            instrs.push(Instruction::WaveformDefinition(WaveformDefinition {
                name: name.into(),
                definition: Waveform { matrix: (0..8).map(|k| rf::real(k as f64 / 8.0)).collect(), parameters: vec![] },
            }));
        }
    }
    // extern pragmas: named (called or not), unnamed, non-identifier
    for _ in 0..src.below(4) {
        instrs.push(defs::definition(src, Kind::Extern).instr);
    }
    // an extern that shares its name with a waveform
    if src.chance(1, 3) {
        instrs.push(defs::parse1("PRAGMA EXTERN wb \"(x : REAL)\""));
    }
    // gate definitions and circuits (never touched by simplification)
    for _ in 0..src.below(3) {
        let k = *src.pick(&[Kind::Gate, Kind::Circuit]);
        instrs.push(defs::definition(src, k).instr);
    }
    // calibrations over X/Y on qubits 0/1/variable, some hoisting a DECLARE, some invoking wa/wb, some calling
    for _ in 0..src.below(4) {
        let head = *src.pick(&["X 0", "X 1", "Y 0", "X q", "MEASURE 0 addr", "MEASURE q"]);
        let text = format!("DEFCAL {head}:\n{}", cal_body(src, &opts));
        if let Ok(i) = <Instruction as std::str::FromStr>::from_str(&text) {
            instrs.push(i);
        }
    }
    // body extras: gates that may or may not have a calibration, direct waveform invocations, calls
    for _ in 0..src.below(5) {
        let at = src.below(body.len() + 1);
        let extra = match src.below(7) {
            0 => gate("X", 0),
            1 => gate("X", 1),
            2 => gate("Y", 0),
            3 => gate("Z", 2),
            4 => rf::pulse(true, &rfprog::nameable_frames()[src.below(5)], rf::waveform(*src.pick(&["wa", "wb", "wc", "undefined_wf", "fa"]), &[])),
            5 => Instruction::Call(
                Call::try_new(src.pick(&["fa", "fb", "fz", "wb"]).to_string(), vec![UnresolvedCallArgument::MemoryReference(classical::mref(src, &rfprog::REGIONS, 1))]).unwrap(),
            ),
            _ => Instruction::Measurement(quil_rs::instruction::Measurement { name: None, qubit: Qubit::Fixed(0), target: Some(rf::mref("ro", 0)) }),
        };
        body.insert(at, extra);
    }
    let mut program = Program::new();
    for i in instrs.iter().chain(body.iter()) {
        program.add_instruction(i.clone());
    }
    let text = program.to_instructions().iter().map(defs::show).collect::<Vec<_>>().join(" ;; ");
    Generated { program, frames: base.defined, text }
}

fn sorted(v: impl IntoIterator<Item = String>) -> Vec<String> {
    let mut v: Vec<String> = v.into_iter().collect();
    v.sort();
    v
}

type BlockSchedule = Result<(Vec<(usize, u64, u64)>, u64), String>;

fn schedules(p: &Program) -> Result<Vec<BlockSchedule>, String> {
    let sp = ScheduledProgram::from_program(p, &DefaultHandler).map_err(|e| format!("{e}"))?;
    Ok(sp
        .basic_blocks()
        .iter()
        .map(|b| {
            b.as_schedule_seconds(p, &DefaultHandler)
                .map(|s| {
                    let mut items: Vec<(usize, u64, u64)> =
                        s.items().iter().map(|i| (i.instruction_index, i.time_span.start_time.0.to_bits(), i.time_span.duration.0.to_bits())).collect();
                    items.sort();
                    (items, s.duration().0.to_bits())
                })
                .map_err(|e| format!("{e}"))
        })
        .collect())
}

pub fn oracle(g: &Generated, out: &mut Outcome) -> Check {
    let p = &g.program;
    let e = lib(|| p.expand_calibrations())?;
    let s = lib(|| p.simplify(&DefaultHandler))?;
    let (e, s) = match (e, s) {
        (Ok(e), Ok(s)) => (e, s),
        (Err(_), Err(_)) => {
            out.skip = Some("expansion-fails");
            return Ok(());
        }
        (Ok(_), Err(err)) => fail!("c35:simplify-fails", "expand_calibrations succeeds but simplify fails: {err}; program: {}", g.text),
        (Err(err), Ok(_)) => fail!("c35:simplify-succeeds", "expand_calibrations fails ({err}) but simplify succeeds; program: {}", g.text),
    };
    let ebody: Vec<Instruction> = e.body_instructions().cloned().collect();
    let sbody: Vec<Instruction> = s.body_instructions().cloned().collect();
    // (a)
    ensure!(sbody == ebody, "c35:body", "simplified body differs from the calibration-expanded body:\n  simplified: {:?}\n  expanded:   {:?}", sbody.iter().map(defs::show).collect::<Vec<_>>(), ebody.iter().map(defs::show).collect::<Vec<_>>());
    ensure!(s.calibrations.is_empty() && s.calibrations.measure_calibrations.is_empty(), "c35:calibrations-left", "simplified program still has calibrations");

    // (b)
    let defined: Vec<FrameIdentifier> = p.frames.get_keys().into_iter().cloned().collect();
    let mut used: BTreeSet<usize> = BTreeSet::new();
    for i in &ebody {
        if let Some(m) = fmodel::matching(&defined, i) {
            used.extend(m.used);
        } else if matches!(i, Instruction::Reset(r) if r.qubit.is_none()) {
            // the statement of C26 does not define a bare RESET; the frames it uses are whatever the
            // default handler reports for it *in the expanded program* (whose body is the one kept)
            if let Some(m) = lib(|| DefaultHandler.matching_frames(&e, i))? {
                out.class("bare-reset");
                for f in m.used {
                    if let Some(k) = defined.iter().position(|d| d == f) {
                        used.insert(k);
                    }
                }
            }
        }
    }
    let want_frames = sorted(used.iter().map(|k| defined[*k].to_quil_or_debug()));
    let got_frames = sorted(s.frames.get_keys().into_iter().map(|f| f.to_quil_or_debug()));
    if got_frames != want_frames {
        let extra: Vec<&String> = got_frames.iter().filter(|f| !want_frames.contains(f)).collect();
        let sig = if extra.is_empty() { "c35:frames:used-frame-removed" } else { "c35:frames:unused-frame-kept" };
        fail!(sig, "frames kept {got_frames:?}, frames used by the expanded body {want_frames:?}; program: {}", g.text);
    }
    for k in &used {
        ensure!(s.frames.get(&defined[*k]) == p.frames.get(&defined[*k]), "c35:frame-attributes", "attributes of frame {} changed", defined[*k].to_quil_or_debug());
    }
    let removed_frames = defined.len() - used.len();

    // (c)
    let invoked: BTreeSet<String> = ebody
        .iter()
        .filter_map(|i| match i {
            Instruction::Pulse(x) => Some(x.waveform.name.clone()),
            Instruction::Capture(x) => Some(x.waveform.name.clone()),
            _ => None,
        })
        .collect();
    let want_w = sorted(p.waveforms.keys().filter(|n| invoked.contains(*n)).cloned());
    let got_w = sorted(s.waveforms.keys().cloned());
    if got_w != want_w {
        let sig = if got_w.iter().any(|w| !want_w.contains(w)) { "c35:waveforms:unused-kept" } else { "c35:waveforms:used-removed" };
        fail!(sig, "waveform definitions kept {got_w:?}, invoked by the expanded body {want_w:?}; program: {}", g.text);
    }
    for n in &want_w {
        ensure!(s.waveforms.get(n) == p.waveforms.get(n), "c35:waveform-changed", "waveform {n} changed");
    }
    let removed_waveforms = p.waveforms.len() - want_w.len();

    // (d)
    let called: BTreeSet<String> = ebody.iter().filter_map(|i| if let Instruction::Call(c) = i { Some(c.name.clone()) } else { None }).collect();
    let externs_of = |q: &Program| -> Vec<Instruction> { q.to_instructions().into_iter().filter(|i| defs::classify(i).0 == Kind::Extern).collect() };
    let want_x: Vec<Instruction> = externs_of(p)
        .into_iter()
        .filter(|i| matches!(defs::classify(i).1.strip_prefix("name:"), Some(n) if called.contains(n)))
        .collect();
    let got_x = externs_of(&s);
    if got_x != want_x {
        let sig = if got_x.len() > want_x.len() { "c35:externs:uncalled-kept" } else { "c35:externs:called-removed" };
        fail!(sig, "extern pragmas kept {:?}, called by the expanded body {:?}; program: {}", got_x.iter().map(defs::show).collect::<Vec<_>>(), want_x.iter().map(defs::show).collect::<Vec<_>>(), g.text);
    }
    let removed_externs = externs_of(p).len() - want_x.len();

    // (e)
    ensure!(s.memory_regions == e.memory_regions, "c35:declarations", "declarations of the simplified program differ from the expanded program's");
    ensure!(s.gate_definitions == e.gate_definitions && s.gate_definitions == p.gate_definitions, "c35:gate-definitions", "gate definitions changed");
    ensure!(s.circuits == e.circuits && s.circuits == p.circuits, "c35:circuits", "circuits changed");

    // (f)
    let (se, ss) = (lib(|| schedules(&e))?, lib(|| schedules(&s))?);
    match (se, ss) {
        (Ok(be), Ok(bs)) => {
            ensure!(be.len() == bs.len(), "c35:schedule:block-count", "block counts differ");
            for (k, (x, y)) in be.iter().zip(bs.iter()).enumerate() {
                match (x, y) {
                    (Ok(a), Ok(b)) => {
                        out.class("schedule-compared");
                        ensure!(a == b, "c35:schedule:differs", "block {k}: schedule of the simplified program differs from the expanded program's; program: {}", g.text)
                    }
                    (Err(_), Err(_)) => {}
                    (Ok(_), Err(err)) => fail!("c35:schedule:lost", "block {k}: the expanded program has a schedule, the simplified one fails: {err}; program: {}", g.text),
                    // "every computed block schedule": a schedule the expanded program does not
                    // have (e.g. because of a dead, malformed PRAGMA EXTERN) has nothing to equal
                    (Err(_), Ok(_)) => out.class("schedule-only-after-simplify"),
                }
            }
        }
        (Err(_), Err(_)) => {}
        (Err(_), Ok(_)) => out.class("schedule-only-after-simplify"),
        (Ok(_), Err(err)) => fail!("c35:schedule:graph-lost", "the expanded program has a dependency graph, the simplified one fails: {err}; program: {}", g.text),
    }

    let kept_and_removed = |kept: usize, removed: usize| kept >= 1 && removed >= 1;
    out.nontrivial = kept_and_removed(want_frames.len(), removed_frames) || kept_and_removed(want_w.len(), removed_waveforms) || kept_and_removed(want_x.len(), removed_externs);
    if kept_and_removed(want_frames.len(), removed_frames) {
        out.class("frames:kept+removed");
    }
    if kept_and_removed(want_w.len(), removed_waveforms) {
        out.class("waveforms:kept+removed");
    }
    if kept_and_removed(want_x.len(), removed_externs) {
        out.class("externs:kept+removed");
    }
    if ebody != p.body_instructions().cloned().collect::<Vec<_>>() {
        out.class("calibration-expanded");
    }
    if e.memory_regions.len() > p.memory_regions.len() {
        out.class("hoisted-declaration");
    }
    Ok(())
}

impl Property for C35Prop {
    fn id(&self) -> &'static str {
        "C35"
    }
    fn rule(&self) -> &'static str {
        "random programs: each of 4 frames on overlapping qubits defined with probability 0.6, body of <= 7/12 RF (incl. undefined frames), classical and control-flow instructions plus up to 4 extras (gates X/Y/Z, PULSE with defined/undefined waveform names, CALL of defined/undefined externs, MEASURE), waveform definitions wa/wb/wc + custom4 and one named like the extern fa, up to 3 PRAGMA EXTERN (named/unnamed/non-identifier) and one named like the waveform wb, up to 2 DEFGATE/DEFCIRCUIT, up to 3 DEFCALs (X/Y on 0/1/variable, MEASURE) whose bodies hold RF instructions, DECLARE tmp (hoisted), PULSE with wa/wb, CALL. Non-trivial = for frames, waveforms or externs at least one definition is removed and one kept; distinct by program text hash."
    }
    fn assumptions(&self) -> Vec<&'static str> {
        vec!["'frames used' follows the Quil-T rules of C26 (reference model), for a bare RESET the handler's own answer on the expanded program is the reference", "schedules compared bit-for-bit (same code on both sides)"]
    }
    fn max_words(&self) -> usize {
        600
    }
    fn cases(&self, tier: Tier) -> u64 {
        tier.pick(30_000, 600_000)
    }
    fn run(&self, src: &mut Src, ctx: &Ctx, out: &mut Outcome) -> Check {
        let g = generate(src, ctx.tier);
        out.set_key(&g.text);
        if ctx.render {
            out.render = Some(g.text.clone());
        }
        let _ = &g.frames;
        oracle(&g, out)
    }
    fn floors(&self) -> Vec<(&'static str, f64)> {
        vec![
            ("frames:kept+removed", 0.1),
            ("waveforms:kept+removed", 0.1),
            ("externs:kept+removed", 0.02),
            ("calibration-expanded", 0.1),
            ("bare-reset", 0.03),
            ("schedule-compared", 0.05),
        ]
    }
}
