//! C27 — Reported memory accesses match each instruction's semantics.
//!
//! Oracle: `model::mem::accesses` (table written from the statement and the Quil spec semantics)
//! must equal `DefaultHandler.memory_accesses` exactly (reads, writes, captures as sets of region
//! names). CALLs are generated against a generated extern signature with the right number of
//! arguments; a CALL to an unknown extern must be an error. CALLs with a wrong argument count
//! only have to return (the trait documents that they may fail).

use crate::engine::{lib, Check, Ctx, Outcome, Property, Src, Tier};
use crate::gen::expr::{self as gx, ExprCfg, Literals};
use crate::gen::{classical, rf};
use crate::model::mem::{self, CallShape};
use crate::{ensure, fail};
use num_complex::Complex64;
use quil_rs::expression::Expression;
use quil_rs::instruction::{
    Call, DefaultHandler, ExternParameter, ExternParameterType, ExternSignature, ExternSignatureMap, Gate, Instruction,
    InstructionHandler, JumpUnless, JumpWhen, Measurement, Pragma, PragmaArgument, Qubit, ScalarType, Target,
    UnresolvedCallArgument, Vector,
};
use quil_rs::quil::Quil;
use quil_rs::Program;
use std::collections::BTreeSet;

pub struct C27Prop;
pub static C27: C27Prop = C27Prop;

const REGIONS: [&str; 3] = ["a", "b", "c"];

fn expr(src: &mut Src, depth: u32) -> Expression {
    let vars: Vec<String> = vec![];
    let regions: Vec<(String, u64)> = REGIONS.iter().map(|r| (r.to_string(), 3)).collect();
    let cfg = ExprCfg {
        max_depth: depth,
        vars: &vars,
        regions: &regions,
        literals: Literals::Moderate,
        share_pct: 10,
        prefix_plus: false,
        allow_pi: true,
        allow_variables: false,
        complex_numbers: false,
    };
    gx::expr(src, &cfg)
}

pub const SCALARS: [ScalarType; 4] = [ScalarType::Bit, ScalarType::Integer, ScalarType::Octet, ScalarType::Real];

pub fn gen_signature(src: &mut Src) -> ExternSignature {
    let nparams = src.below(4);
    let ret = if src.chance(1, 2) || nparams == 0 { Some(*src.pick(&SCALARS)) } else { None };
    let params = (0..nparams)
        .map(|i| {
            let t = *src.pick(&SCALARS);
            let ty = match src.below(3) {
                0 => ExternParameterType::Scalar(t),
                1 => ExternParameterType::FixedLengthVector(Vector { data_type: t, length: 1 + src.below(3) as u64 }),
                _ => ExternParameterType::VariableLengthVector(t),
            };
            ExternParameter::try_new(format!("p{i}"), src.chance(1, 2), ty).expect("valid parameter")
        })
        .collect();
    ExternSignature::new(ret, params)
}

pub fn signature_map(name: &str, sig: &ExternSignature) -> Result<ExternSignatureMap, String> {
    let text = sig.to_quil().map_err(|e| format!("{e:?}"))?;
    let mut p = Program::new();
    p.add_instruction(Instruction::Pragma(Pragma {
        name: "EXTERN".into(),
        arguments: vec![PragmaArgument::Identifier(name.to_string())],
        data: Some(text),
    }));
    p.try_extern_signature_map_from_pragma_map().map_err(|(_, e)| format!("{e}"))
}

fn call_argument(src: &mut Src) -> UnresolvedCallArgument {
    match src.below(3) {
        0 => UnresolvedCallArgument::Identifier(src.pick(&REGIONS).to_string()),
        1 => UnresolvedCallArgument::MemoryReference(classical::mref(src, &REGIONS, 2)),
        _ => UnresolvedCallArgument::Immediate(Complex64::new(src.range(-3, 3) as f64, 0.0)),
    }
}

fn sorted(s: &std::collections::HashSet<String>) -> BTreeSet<String> {
    s.iter().cloned().collect()
}

impl Property for C27Prop {
    fn id(&self) -> &'static str {
        "C27"
    }
    fn rule(&self) -> &'static str {
        "random single instructions of every body kind (MOVE, ADD/SUB/MUL/DIV, AND/IOR/XOR/SHL/SHR/ASHR, NEG/NOT, EXCHANGE, CONVERT, EQ/GT/GE/LT/LE, LOAD, STORE, JUMP-WHEN/UNLESS, MEASURE with/without target, PULSE, CAPTURE, RAW-CAPTURE, DELAY, SET-*/SHIFT-*, gate with parameters, FENCE, RESET, SWAP-PHASES, NOP/WAIT/HALT/JUMP/LABEL/PRAGMA, CALL) over regions {a,b,c} with every operand form and expressions of depth <= 3; CALLs against generated signatures (optional return, 0..3 scalar/fixed/variable-vector parameters, mutable or not); one case in eight is a definition: DEFCAL (optionally with a memory-referencing parameter), DEFCAL MEASURE or DEFCIRCUIT with a body of 1..4 such instructions, DEFGATE as matrix or sequence and DEFWAVEFORM with memory-referencing entries (reference: a definition accesses what its body and its own expressions access). Non-trivial = the instruction touches >= 2 distinct regions or has an address nested inside an operator/function; distinct by rendered text."
    }
    fn max_words(&self) -> usize {
        300
    }
    fn cases(&self, tier: Tier) -> u64 {
        tier.pick(100_000, 2_000_000)
    }
    fn run(&self, src: &mut Src, ctx: &Ctx, out: &mut Outcome) -> Check {
        let f = rf::frame(&[0], "f");
        let kind = src.below(32);
        let mut sig_map = ExternSignatureMap::default();
        let mut shape: Option<CallShape> = None;
        let mut expect_error = false;
        let mut lenient = false;
        let instruction = match kind {
            28..=31 => {
                out.class("definition");
                definition(src, kind)
            }
            0..=9 => classical::classical(src, kind, &REGIONS),
            10 => Instruction::JumpWhen(JumpWhen { target: Target::Fixed("t".into()), condition: classical::mref(src, &REGIONS, 2) }),
            11 => Instruction::JumpUnless(JumpUnless { target: Target::Fixed("t".into()), condition: classical::mref(src, &REGIONS, 2) }),
            12 => Instruction::Measurement(Measurement {
                name: None,
                qubit: Qubit::Fixed(0),
                target: if src.chance(3, 4) { Some(classical::mref(src, &REGIONS, 2)) } else { None },
            }),
            13 => rf::pulse(src.chance(1, 2), &f, rf::waveform("w", &[("x", expr(src, 3)), ("y", expr(src, 2))])),
            14 => rf::capture(src.chance(1, 2), &f, rf::waveform("w", &[("x", expr(src, 3))]), classical::mref(src, &REGIONS, 2)),
            15 => rf::raw_capture(src.chance(1, 2), &f, expr(src, 3), classical::mref(src, &REGIONS, 2)),
            16 => rf::delay(&[0], &[], expr(src, 3)),
            17 => rf::set_frequency(&f, expr(src, 3)),
            18 => rf::set_phase(&f, expr(src, 3)),
            19 => rf::set_scale(&f, expr(src, 3)),
            20 => rf::shift_frequency(&f, expr(src, 3)),
            21 => rf::shift_phase(&f, expr(src, 3)),
            22 => Instruction::Gate(Gate::new("RX", vec![expr(src, 3)], vec![Qubit::Fixed(0)], vec![]).unwrap()),
            23 => match src.below(8) {
                0 => rf::fence(&[0]),
                1 => rf::reset(Some(0)),
                2 => rf::swap_phases(&f, &rf::frame(&[1], "g")),
                3 => Instruction::Nop(),
                4 => Instruction::Wait(),
                5 => Instruction::Halt(),
                6 => Instruction::Pragma(Pragma { name: "a".into(), arguments: vec![PragmaArgument::Identifier("b".into())], data: Some("c".into()) }),
                _ => rf::reset(None),
            },
            _ => {
                // CALL
                let sig = gen_signature(src);
                sig_map = signature_map("f", &sig).map_err(|e| crate::engine::Failure { sig: "c27:signature-map".into(), msg: e })?;
                let expected_args = sig.parameters().len() + usize::from(sig.return_type().is_some());
                let mode = src.below(8);
                let nargs = match mode {
                    0 => expected_args + 1,
                    1 => expected_args.saturating_sub(1),
                    _ => expected_args,
                };
                lenient = nargs != expected_args;
                let args: Vec<UnresolvedCallArgument> = (0..nargs).map(|_| call_argument(src)).collect();
                let name = if mode == 2 { "g" } else { "f" };
                expect_error = mode == 2;
                shape = Some(CallShape { has_return: sig.return_type().is_some(), mutable: sig.parameters().iter().map(|p| p.mutable()).collect() });
                out.class("call");
                if ctx.render {
                    out.render = Some(format!("PRAGMA EXTERN f \"{}\"; ", sig.to_quil_or_debug()));
                }
                Instruction::Call(Call::try_new(name.to_string(), args).unwrap())
            }
        };
        let text = instruction.to_quil_or_debug();
        out.set_key(&(out.render.clone(), &text));
        if ctx.render {
            out.render = Some(format!("{}{}", out.render.clone().unwrap_or_default(), text));
        }
        let got = lib(|| DefaultHandler.memory_accesses(&sig_map, &instruction))?;
        if expect_error {
            ensure!(got.is_err(), "c27:unknown-extern-accepted", "CALL to an undeclared extern reported accesses: {text}");
            return Ok(());
        }
        if lenient {
            return Ok(());
        }
        let got = match got {
            Ok(g) => g,
            Err(e) => fail!("c27:error", "memory_accesses failed for {text}: {e}"),
        };
        let expected = match mem::accesses(&instruction, shape.as_ref()) {
            Some(e) => e,
            None => fail!("harness:c27-model", "no model for {text}"),
        };
        let all: BTreeSet<&String> = expected.reads.iter().chain(expected.writes.iter()).chain(expected.captures.iter()).collect();
        let nested = match &instruction {
            Instruction::Pulse(_) | Instruction::Capture(_) | Instruction::RawCapture(_) | Instruction::Delay(_) | Instruction::Gate(_) => !expected.reads.is_empty(),
            Instruction::SetFrequency(_) | Instruction::SetPhase(_) | Instruction::SetScale(_) | Instruction::ShiftFrequency(_) | Instruction::ShiftPhase(_) => !expected.reads.is_empty(),
            _ => false,
        };
        out.nontrivial = all.len() >= 2 || nested;
        let kind_name = kind_name(&instruction);
        out.class(kind_name);
        ensure!(sorted(&got.reads) == expected.reads, format!("c27:reads:{kind_name}"), "{text}: reads {:?}, semantics give {:?}", sorted(&got.reads), expected.reads);
        ensure!(sorted(&got.writes) == expected.writes, format!("c27:writes:{kind_name}"), "{text}: writes {:?}, semantics give {:?}", sorted(&got.writes), expected.writes);
        ensure!(
            sorted(&got.captures) == expected.captures,
            format!("c27:captures:{kind_name}"),
            "{text}: captures {:?}, semantics give {:?}",
            sorted(&got.captures),
            expected.captures
        );
        Ok(())
    }
}

/// An instruction of a kind that may stand in a definition body (no CALL: it needs a signature map
/// of its own shape).
fn plain(src: &mut Src) -> Instruction {
    let f = rf::frame(&[0], "f");
    let kind = src.below(24);
    match kind {
        0..=9 => classical::classical(src, kind, &REGIONS),
        10 | 11 | 12 => Instruction::Measurement(Measurement {
            name: None,
            qubit: Qubit::Fixed(0),
            target: if src.chance(3, 4) { Some(classical::mref(src, &REGIONS, 2)) } else { None },
        }),
        13 => rf::pulse(src.chance(1, 2), &f, rf::waveform("w", &[("x", expr(src, 2))])),
        14 => rf::capture(src.chance(1, 2), &f, rf::waveform("w", &[("x", expr(src, 2))]), classical::mref(src, &REGIONS, 2)),
        15 => rf::raw_capture(src.chance(1, 2), &f, expr(src, 2), classical::mref(src, &REGIONS, 2)),
        16 => rf::delay(&[0], &[], expr(src, 2)),
        17 => rf::set_phase(&f, expr(src, 2)),
        18 => rf::shift_frequency(&f, expr(src, 2)),
        19 => Instruction::Gate(Gate::new("RX", vec![expr(src, 2)], vec![Qubit::Fixed(0)], vec![]).unwrap()),
        20 => rf::fence(&[0]),
        21 => Instruction::Nop(),
        22 => rf::swap_phases(&f, &rf::frame(&[1], "g")),
        _ => rf::fence(&[]),
    }
}

/// A definition whose accesses are those of its body and of its own expressions.
fn definition(src: &mut Src, kind: usize) -> Instruction {
    use quil_rs::instruction::{
        CalibrationDefinition, CalibrationIdentifier, CircuitDefinition, GateDefinition, GateSpecification, MeasureCalibrationDefinition,
        MeasureCalibrationIdentifier, Waveform, WaveformDefinition,
    };
    let n = 1 + src.below(4);
    let with_body = |src: &mut Src| -> Vec<Instruction> { (0..n).map(|_| plain(src)).collect() };
    match kind {
        28 => {
            let parameters = if src.chance(1, 2) { vec![expr(src, 2)] } else { vec![] };
            Instruction::CalibrationDefinition(CalibrationDefinition {
                identifier: CalibrationIdentifier::new("RX".into(), vec![], parameters, vec![Qubit::Fixed(0)]).unwrap(),
                instructions: with_body(src),
            })
        }
        29 => Instruction::MeasureCalibrationDefinition(MeasureCalibrationDefinition {
            identifier: MeasureCalibrationIdentifier::new(None, Qubit::Fixed(0), Some("addr".into())),
            instructions: with_body(src),
        }),
        30 => Instruction::CircuitDefinition(CircuitDefinition::new("C".into(), vec![], vec!["q".into()], with_body(src))),
        _ => match src.below(3) {
            0 => Instruction::WaveformDefinition(WaveformDefinition::new("wf".into(), Waveform::new((0..n).map(|_| expr(src, 2)).collect(), vec![]))),
            1 => {
                let cell = |src: &mut Src| expr(src, 2);
                let m = vec![vec![cell(src), cell(src)], vec![cell(src), cell(src)]];
                Instruction::GateDefinition(GateDefinition::new("GM".into(), vec![], GateSpecification::Matrix(m)).unwrap())
            }
            _ => {
                let gates: Vec<Gate> = (0..n).map(|_| Gate::new("RX", vec![expr(src, 2)], vec![Qubit::Variable("p".into())], vec![]).unwrap()).collect();
                let seq = quil_rs::instruction::DefGateSequence::try_new(vec!["p".into()], gates).unwrap();
                Instruction::GateDefinition(GateDefinition::new("SQ".into(), vec![], GateSpecification::Sequence(seq)).unwrap())
            }
        },
    }
}

fn kind_name(i: &Instruction) -> &'static str {
    match i {
        Instruction::CalibrationDefinition(_) => "DEFCAL",
        Instruction::MeasureCalibrationDefinition(_) => "DEFCAL-MEASURE",
        Instruction::CircuitDefinition(_) => "DEFCIRCUIT",
        Instruction::WaveformDefinition(_) => "DEFWAVEFORM",
        Instruction::GateDefinition(_) => "DEFGATE",
        Instruction::Move(_) => "MOVE",
        Instruction::Arithmetic(_) => "arithmetic",
        Instruction::BinaryLogic(_) => "binary-logic",
        Instruction::UnaryLogic(_) => "unary-logic",
        Instruction::Exchange(_) => "EXCHANGE",
        Instruction::Convert(_) => "CONVERT",
        Instruction::Comparison(_) => "comparison",
        Instruction::Load(_) => "LOAD",
        Instruction::Store(_) => "STORE",
        Instruction::JumpWhen(_) | Instruction::JumpUnless(_) => "conditional-jump",
        Instruction::Measurement(_) => "MEASURE",
        Instruction::Pulse(_) => "PULSE",
        Instruction::Capture(_) => "CAPTURE",
        Instruction::RawCapture(_) => "RAW-CAPTURE",
        Instruction::Delay(_) => "DELAY",
        Instruction::Gate(_) => "gate",
        Instruction::Call(_) => "CALL",
        Instruction::SetFrequency(_) | Instruction::SetPhase(_) | Instruction::SetScale(_) | Instruction::ShiftFrequency(_) | Instruction::ShiftPhase(_) => "frame-update",
        _ => "no-memory",
    }
}
