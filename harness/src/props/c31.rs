//! C31 — Extern signatures round-trip and CALL resolution follows the rules.
//!
//! Statement: "Every valid extern signature prints to text that parses back to the same signature.
//! A CALL resolves iff its argument count matches and each argument fits its slot. The return slot
//! takes a declared memory reference or name of the return type, a scalar slot takes a declared
//! reference of its type or (if immutable) an immediate, and a vector slot takes the name of a
//! region whose type and, for fixed length, size match."
//!
//! Oracles:
//!  (a) inverse: `ExternSignature::from_str(sig.to_quil()) == sig`, and the same through a
//!      `PRAGMA EXTERN name "<sig>"` in a program — built through the API and also printed and
//!      parsed — via `Program::try_extern_signature_map_from_pragma_map`;
//!  (b) reference resolver written from the statement (plus the rustdoc of
//!      `UnresolvedCallArgument::Identifier`: "this may be resolved to either a scalar or vector. In
//!      the former case, the assumed index is 0") decides Ok/Err of `Call::resolve_arguments`; on
//!      Ok the resolved kinds, types, regions and mutability flags must match (the return slot is
//!      mutable: it is written).

use crate::engine::{lib, Check, Ctx, Outcome, Property, Src, Tier};
use crate::gen::ident;
use crate::{ensure, fail};
use num_complex::Complex64;
use quil_rs::instruction::{
    Call, Declaration, ExternParameter, ExternParameterType, ExternSignature, Instruction, MemoryReference, Pragma, PragmaArgument,
    ResolvedCallArgument, ScalarType, UnresolvedCallArgument, Vector,
};
use quil_rs::quil::Quil;
use quil_rs::Program;
use std::str::FromStr;

pub struct C31Prop;
pub static C31: C31Prop = C31Prop;

const SCALARS: [ScalarType; 4] = [ScalarType::Integer, ScalarType::Real, ScalarType::Bit, ScalarType::Octet];

/// Declared regions: name, type, length. "undeclared" is never declared.
const REGIONS: [(&str, ScalarType, u64); 7] = [
    ("i1", ScalarType::Integer, 1),
    ("i3", ScalarType::Integer, 3),
    ("r1", ScalarType::Real, 1),
    ("r3", ScalarType::Real, 3),
    ("b2", ScalarType::Bit, 2),
    ("o3", ScalarType::Octet, 3),
    ("r2", ScalarType::Real, 2),
];
const NAMES: [&str; 8] = ["i1", "i3", "r1", "r3", "b2", "o3", "r2", "undeclared"];

fn region(name: &str) -> Option<(ScalarType, u64)> {
    REGIONS.iter().find(|(n, _, _)| *n == name).map(|(_, t, l)| (*t, *l))
}

fn signature(src: &mut Src, tier: Tier) -> ExternSignature {
    let return_type = if src.chance(1, 2) { Some(*src.pick(&SCALARS)) } else { None };
    let max = tier.pick(4, 6);
    let mut n = src.below(max + 1);
    if n == 0 && return_type.is_none() {
        n = 1;
    }
    let mut params = vec![];
    for k in 0..n {
        let t = *src.pick(&SCALARS);
        let data_type = match src.below(3) {
            0 => ExternParameterType::Scalar(t),
            1 => ExternParameterType::FixedLengthVector(Vector { data_type: t, length: 1 + src.below(4) as u64 }),
            _ => ExternParameterType::VariableLengthVector(t),
        };
        let mutable = src.chance(1, 3);
        let name = if src.chance(1, 2) { format!("p{k}") } else { ident::ident(src, 8) };
        let p = ExternParameter::try_new(name, mutable, data_type.clone()).unwrap_or_else(|_| ExternParameter::try_new(format!("p{k}"), mutable, data_type).unwrap());
        params.push(p);
    }
    ExternSignature::new(return_type, params)
}

/// An argument aimed at the slot (fits with probability ~2/3) or arbitrary.
fn argument(src: &mut Src, want: Option<(&ExternParameterType, bool)>, ret: Option<ScalarType>) -> UnresolvedCallArgument {
    let fitting_region = |src: &mut Src, t: ScalarType, len: Option<u64>| -> String {
        let fits: Vec<&str> = REGIONS.iter().filter(|(_, rt, rl)| *rt == t && len.map(|l| l == *rl).unwrap_or(true)).map(|(n, _, _)| *n).collect();
        if fits.is_empty() {
            src.pick(&NAMES).to_string()
        } else {
            src.pick(&fits).to_string()
        }
    };
    if src.chance(2, 3) {
        if let Some(t) = ret {
            let name = fitting_region(src, t, None);
            return if src.chance(1, 2) { UnresolvedCallArgument::Identifier(name) } else { UnresolvedCallArgument::MemoryReference(MemoryReference { name, index: src.below(2) as u64 }) };
        }
        if let Some((ty, mutable)) = want {
            return match ty {
                ExternParameterType::Scalar(t) => match src.below(3) {
                    0 if !mutable => UnresolvedCallArgument::Immediate(Complex64::new(src.range(-3, 3) as f64, 0.0)),
                    1 => UnresolvedCallArgument::Identifier(fitting_region(src, *t, None)),
                    _ => UnresolvedCallArgument::MemoryReference(MemoryReference { name: fitting_region(src, *t, None), index: src.below(2) as u64 }),
                },
                ExternParameterType::FixedLengthVector(v) => UnresolvedCallArgument::Identifier(fitting_region(src, v.data_type, Some(v.length))),
                ExternParameterType::VariableLengthVector(t) => UnresolvedCallArgument::Identifier(fitting_region(src, *t, None)),
            };
        }
    }
    match src.below(3) {
        0 => UnresolvedCallArgument::Identifier(src.pick(&NAMES).to_string()),
        1 => UnresolvedCallArgument::MemoryReference(MemoryReference { name: src.pick(&NAMES).to_string(), index: src.below(3) as u64 }),
        _ => UnresolvedCallArgument::Immediate(Complex64::new(src.range(-3, 3) as f64 / 2.0, if src.chance(1, 4) { 1.0 } else { 0.0 })),
    }
}

#[derive(Debug, PartialEq)]
enum Slot {
    Reference { name: String, index: u64, scalar: ScalarType, mutable: bool },
    Vector { name: String, vector: Vector, mutable: bool },
    Immediate { value: Complex64, scalar: ScalarType },
}

/// Reference resolver (b). `Err` carries a short reason.
fn model_resolve(sig: &ExternSignature, args: &[UnresolvedCallArgument]) -> Result<Vec<Slot>, String> {
    let expected = sig.parameters().len() + usize::from(sig.return_type().is_some());
    if args.len() != expected {
        return Err(format!("argument count {} != {expected}", args.len()));
    }
    let mut out = vec![];
    let mut rest = args;
    let reference = |name: &str, index: u64, t: ScalarType, mutable: bool| -> Result<Slot, String> {
        match region(name) {
            None => Err(format!("{name} is not declared")),
            Some((rt, _)) if rt != t => Err(format!("{name} has type {rt:?}, slot wants {t:?}")),
            Some(_) => Ok(Slot::Reference { name: name.to_string(), index, scalar: t, mutable }),
        }
    };
    if let Some(rt) = sig.return_type() {
        out.push(match &args[0] {
            UnresolvedCallArgument::MemoryReference(m) => reference(&m.name, m.index, *rt, true)?,
            UnresolvedCallArgument::Identifier(n) => reference(n, 0, *rt, true)?,
            UnresolvedCallArgument::Immediate(_) => return Err("immediate in the return slot".into()),
        });
        rest = &args[1..];
    }
    for (a, p) in rest.iter().zip(sig.parameters()) {
        let slot = match (p.data_type(), a) {
            (ExternParameterType::Scalar(t), UnresolvedCallArgument::MemoryReference(m)) => reference(&m.name, m.index, *t, p.mutable())?,
            (ExternParameterType::Scalar(t), UnresolvedCallArgument::Identifier(n)) => reference(n, 0, *t, p.mutable())?,
            (ExternParameterType::Scalar(t), UnresolvedCallArgument::Immediate(v)) => {
                if p.mutable() {
                    return Err("immediate for a mutable parameter".into());
                }
                Slot::Immediate { value: *v, scalar: *t }
            }
            (ExternParameterType::FixedLengthVector(v), UnresolvedCallArgument::Identifier(n)) => match region(n) {
                None => return Err(format!("{n} is not declared")),
                Some((t, l)) if t != v.data_type || l != v.length => return Err(format!("{n} is {t:?}[{l}], slot wants {:?}[{}]", v.data_type, v.length)),
                Some(_) => Slot::Vector { name: n.clone(), vector: v.clone(), mutable: p.mutable() },
            },
            (ExternParameterType::VariableLengthVector(t), UnresolvedCallArgument::Identifier(n)) => match region(n) {
                None => return Err(format!("{n} is not declared")),
                Some((rt, _)) if rt != *t => return Err(format!("{n} has type {rt:?}, slot wants {t:?}[]")),
                Some((rt, l)) => Slot::Vector { name: n.clone(), vector: Vector { data_type: rt, length: l }, mutable: p.mutable() },
            },
            (_, _) => return Err("vector slot needs a region name".into()),
        };
        out.push(slot);
    }
    Ok(out)
}

fn observed(r: &ResolvedCallArgument) -> Slot {
    match r {
        ResolvedCallArgument::MemoryReference { memory_reference, scalar_type, mutable } => {
            Slot::Reference { name: memory_reference.name.clone(), index: memory_reference.index, scalar: *scalar_type, mutable: *mutable }
        }
        ResolvedCallArgument::Vector { memory_region_name, vector, mutable } => Slot::Vector { name: memory_region_name.clone(), vector: vector.clone(), mutable: *mutable },
        ResolvedCallArgument::Immediate { value, scalar_type } => Slot::Immediate { value: *value, scalar: *scalar_type },
    }
}

fn base_program(name: &str, sig_text: &str) -> Program {
    let mut p = Program::new();
    for (n, t, l) in REGIONS {
        p.add_instruction(Instruction::Declaration(Declaration { name: n.to_string(), size: Vector { data_type: t, length: l }, sharing: None }));
    }
    p.add_instruction(Instruction::Pragma(Pragma { name: "EXTERN".into(), arguments: vec![PragmaArgument::Identifier(name.to_string())], data: Some(sig_text.to_string()) }));
    p
}

pub fn oracle(sig: &ExternSignature, fname: &str, calls: &[Vec<UnresolvedCallArgument>], out: &mut Outcome) -> Check {
    // (a)
    let text = match lib(|| sig.to_quil())? {
        Ok(t) => t,
        Err(e) => fail!("c31:to-quil-error", "signature {sig:?} does not serialize: {e:?}"),
    };
    match lib(|| ExternSignature::from_str(&text))? {
        Ok(back) => ensure!(back == *sig, "c31:roundtrip-differs", "{sig:?} prints as {text:?}, which parses to {back:?}"),
        Err(e) => fail!("c31:roundtrip-reparse-error", "{sig:?} prints as {text:?}, which does not parse: {e}"),
    }
    let program = lib(|| base_program(fname, &text))?;
    for (route, p) in [("api", Some(program.clone())), ("text", lib(|| program.to_quil())?.ok().and_then(|t| Program::from_str(&t).ok()))] {
        let Some(p) = p else { fail!("c31:program-text", "program with PRAGMA EXTERN {fname} {text:?} does not print and re-parse") };
        match lib(|| p.try_extern_signature_map_from_pragma_map())? {
            Ok(map) => {
                let got: Vec<(&String, &ExternSignature)> = map.iter().collect();
                ensure!(
                    got.len() == 1 && got[0].0 == fname && got[0].1 == sig,
                    format!("c31:pragma-roundtrip-differs:{route}"),
                    "PRAGMA EXTERN {fname} {text:?} ({route}) yields signature map {got:?}, expected {sig:?}"
                );
            }
            Err((_, e)) => fail!(format!("c31:pragma-roundtrip-error:{route}"), "PRAGMA EXTERN {fname} {text:?} ({route}) is rejected: {e}"),
        }
    }
    // (b)
    let map = match lib(|| program.try_extern_signature_map_from_pragma_map())? {
        Ok(m) => m,
        Err(_) => return Ok(()),
    };
    for args in calls {
        let call = match Call::try_new(fname.to_string(), args.clone()) {
            Ok(c) => c,
            Err(e) => fail!("harness:c31-call", "{e}"),
        };
        let shown = call.to_quil_or_debug();
        let want = model_resolve(sig, args);
        let got = lib(|| call.resolve_arguments(&program.memory_regions, &map))?;
        match (&want, &got) {
            (Ok(w), Ok(g)) => {
                out.class("call-resolves");
                let g: Vec<Slot> = g.iter().map(observed).collect();
                ensure!(*w == g, "c31:resolved-differs", "{shown} against {text:?}: resolved to {g:?}, expected {w:?}");
            }
            (Err(_), Err(_)) => out.class("call-rejected"),
            (Ok(_), Err(e)) => fail!("c31:rejects-fitting-call", "{shown} against {text:?} should resolve but fails: {e}"),
            (Err(why), Ok(g)) => fail!("c31:accepts-unfitting-call", "{shown} against {text:?} resolves to {g:?} although {why}"),
        }
        // a CALL to a name with no PRAGMA EXTERN never resolves
        let other = Call::try_new("nosuchextern".to_string(), args.clone()).unwrap();
        ensure!(lib(|| other.resolve_arguments(&program.memory_regions, &map))?.is_err(), "c31:resolves-without-extern", "CALL nosuchextern resolves without a PRAGMA EXTERN");
    }
    Ok(())
}

impl Property for C31Prop {
    fn id(&self) -> &'static str {
        "C31"
    }
    fn rule(&self) -> &'static str {
        "random signatures: optional scalar return type, 0..4 (quick) / 0..6 (thorough) parameters (never both empty), each scalar / fixed-length vector 1..4 / variable-length vector over INTEGER/REAL/BIT/OCTET, mutable with probability 1/3, names p<k> or random valid identifiers; 4 CALLs per signature over 7 declared regions (types x lengths) and an undeclared name, the argument count right 85% of the time, each argument aimed at its slot with probability 2/3 (identifier, reference, immediate) or arbitrary (incl. complex immediates). Non-trivial = arity >= 2 with a vector or mutable parameter; distinct by (signature text, calls)."
    }
    fn max_words(&self) -> usize {
        2 * (2 + 6 * 14 + 4 * (2 + 7 * 5))
    }
    fn cases(&self, tier: Tier) -> u64 {
        tier.pick(40_000, 800_000)
    }
    fn run(&self, src: &mut Src, ctx: &Ctx, out: &mut Outcome) -> Check {
        let sig = signature(src, ctx.tier);
        let fname = if src.chance(1, 2) { "fext".to_string() } else { ident::ident(src, 8) };
        let fname = if Call::try_new(fname.clone(), vec![]).is_ok() { fname } else { "fext".to_string() };
        let expected = sig.parameters().len() + usize::from(sig.return_type().is_some());
        let mut calls = vec![];
        for _ in 0..4 {
            let n = if src.chance(85, 100) { expected } else { src.below(expected + 3) };
            let mut args = vec![];
            for k in 0..n {
                let (ret, want) = if k == 0 && sig.return_type().is_some() {
                    (sig.return_type().copied(), None)
                } else {
                    let pk = k - usize::from(sig.return_type().is_some());
                    (None, sig.parameters().get(pk).map(|p| (p.data_type(), p.mutable())))
                };
                args.push(argument(src, want, ret));
            }
            calls.push(args);
        }
        let text = sig.to_quil_or_debug();
        out.set_key(&(text.clone(), format!("{calls:?}")));
        if ctx.render {
            out.render = Some(format!(
                "PRAGMA EXTERN {fname} {text:?}; {}",
                calls.iter().map(|a| Call::try_new(fname.clone(), a.clone()).map(|c| c.to_quil_or_debug()).unwrap_or_default()).collect::<Vec<_>>().join("; ")
            ));
        }
        let interesting = sig.parameters().iter().any(|p| p.mutable() || !matches!(p.data_type(), ExternParameterType::Scalar(_)));
        out.nontrivial = expected >= 2 && interesting;
        oracle(&sig, &fname, &calls, out)
    }
    fn floors(&self) -> Vec<(&'static str, f64)> {
        vec![("call-resolves", 0.15), ("call-rejected", 0.3)]
    }
}
