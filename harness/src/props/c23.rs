//! C23 — Memory accesses are sequentially consistent in the dependency graph.
//!
//! Statement: "Take any two instructions in a block that touch the same memory region, at least
//! one of them writing or capturing to it. The later one depends (possibly transitively) on the
//! earlier one. Every memory-dependency edge links such a conflicting pair, and two reads of a
//! region with no write between them are never ordered by memory edges."
//!
//! Accesses are the ones the instruction semantics give (`model::mem`, the reference table C27
//! compares `DefaultHandler::memory_accesses` with on every instruction kind), so a handler that
//! under-reports an access shows up here as an unordered conflicting pair; CALL uses the handler's
//! report (its accesses depend on the extern signature).

use super::sched::{self, Edges, Mem};
use crate::engine::{lib, Case, Check, Ctx, Outcome, Property, Src, Tier};
use crate::gen::rfprog::{self, Opts};
use crate::gen::{classical, rf};
use crate::ensure;
use quil_rs::instruction::{
    Arithmetic, ArithmeticOperand, ArithmeticOperator, DefaultHandler, Instruction, JumpWhen, Measurement, Move, Qubit, Target,
};
use quil_rs::program::scheduling::{ExecutionDependency, MemoryAccessType, ScheduledGraphNode, ScheduledProgram};
use quil_rs::Program;

pub struct C23Prop;
pub static C23: C23Prop = C23Prop;

fn mref(n: &str) -> quil_rs::instruction::MemoryReference {
    rf::mref(n, 0)
}

/// The alphabet of the exhaustive part: accesses on regions {ra, rb}.
const LETTERS: usize = 10;
fn letter(i: usize) -> Instruction {
    let f = rf::frame(&[0], "a");
    match i {
        // read ra (RF expression read)
        0 => rf::set_phase(&f, quil_rs::expression::Expression::Address(mref("ra"))),
        // write ra
        1 => Instruction::Move(Move { destination: mref("ra"), source: ArithmeticOperand::LiteralInteger(1) }),
        // read-write ra
        2 => Instruction::Arithmetic(Arithmetic { operator: ArithmeticOperator::Add, destination: mref("ra"), source: ArithmeticOperand::LiteralInteger(1) }),
        // read ra write rb
        3 => Instruction::Move(Move { destination: mref("rb"), source: ArithmeticOperand::MemoryReference(mref("ra")) }),
        // capture into ra
        4 => rf::capture(false, &f, rf::flat(1.0), mref("ra")),
        // read rb
        5 => rf::shift_phase(&f, quil_rs::expression::Expression::Address(mref("rb"))),
        // write rb
        6 => Instruction::Move(Move { destination: mref("rb"), source: ArithmeticOperand::LiteralInteger(2) }),
        // read rb write ra
        7 => Instruction::Move(Move { destination: mref("ra"), source: ArithmeticOperand::MemoryReference(mref("rb")) }),
        // capture into rb while reading ra
        8 => rf::raw_capture(false, &f, quil_rs::expression::Expression::Address(mref("ra")), mref("rb")),
        // no memory
        _ => rf::fence(&[0]),
    }
}

pub fn oracle(program: &Program, text: &str, out: &mut Outcome) -> Check {
    let scheduled = match lib(|| ScheduledProgram::from_program(program, &DefaultHandler))? {
        Ok(s) => s,
        Err(_) => {
            out.class("does-not-schedule");
            return Ok(());
        }
    };
    let map = program.try_extern_signature_map_from_pragma_map().unwrap_or_default();
    for (bi, block) in scheduled.basic_blocks().iter().enumerate() {
        let graph = block.get_dependency_graph();
        let edges = Edges::of(graph);
        let nodes = sched::block_nodes(block);
        let acc: Vec<Option<Mem>> = nodes.iter().map(|(_, i)| sched::mem_accesses_by_semantics(&map, i)).collect();
        if acc.iter().any(|a| a.is_none()) {
            out.class("accesses-unavailable");
            continue;
        }
        let acc: Vec<Mem> = acc.into_iter().map(|a| a.unwrap()).collect();
        let touches = |m: &Mem, r: &String| m.reads.contains(r) || m.writes.contains(r) || m.captures.contains(r);
        let modifies = |m: &Mem, r: &String| m.writes.contains(r) || m.captures.contains(r);
        let regions: std::collections::BTreeSet<String> =
            acc.iter().flat_map(|m| m.reads.iter().chain(m.writes.iter()).chain(m.captures.iter()).cloned()).collect();
        // (1) conflicting pairs are ordered
        let mut war = false;
        let mut raw = false;
        for i in 0..nodes.len() {
            let reach = edges.reachable(nodes[i].0, &|_| true);
            for j in i + 1..nodes.len() {
                let conflict = regions.iter().find(|r| touches(&acc[i], r) && touches(&acc[j], r) && (modifies(&acc[i], r) || modifies(&acc[j], r)));
                if let Some(r) = conflict {
                    if acc[i].reads.contains(r) && modifies(&acc[j], r) {
                        war = true;
                    }
                    if modifies(&acc[i], r) && acc[j].reads.contains(r) {
                        raw = true;
                    }
                    ensure!(
                        reach.contains(&nodes[j].0),
                        "c23:conflict-unordered",
                        "block {bi} of [{text}]: {:?} and {:?} conflict on region {r} but the later does not depend on the earlier",
                        nodes[i].0,
                        nodes[j].0
                    );
                }
            }
        }
        if war && raw {
            out.nontrivial = true;
        }
        // (2) every memory edge is justified; (3) read-only sharing is never a memory edge
        let index_of = |n: ScheduledGraphNode| nodes.iter().position(|(m, _)| *m == n);
        for (a, b, w) in &edges.all {
            for dep in w {
                if let ExecutionDependency::AwaitMemoryAccess(kind) = dep {
                    let (Some(ia), Some(ib)) = (index_of(*a), index_of(*b)) else {
                        crate::fail!("c23:memory-edge-at-boundary", "block {bi} of [{text}]: memory edge {a:?} -> {b:?} touches a block boundary that is not an instruction");
                    };
                    let justified = regions.iter().any(|r| {
                        let u_does = match kind {
                            MemoryAccessType::Read => acc[ia].reads.contains(r),
                            MemoryAccessType::Write => acc[ia].writes.contains(r),
                            MemoryAccessType::Capture => acc[ia].captures.contains(r),
                        };
                        let pair_conflicts = touches(&acc[ib], r) && (modifies(&acc[ia], r) || modifies(&acc[ib], r));
                        // awaiting a read only makes sense if the later instruction modifies the region
                        let kind_ok = match kind {
                            MemoryAccessType::Read => modifies(&acc[ib], r),
                            _ => true,
                        };
                        u_does && pair_conflicts && kind_ok
                    });
                    ensure!(
                        justified,
                        "c23:unjustified-memory-edge",
                        "block {bi} of [{text}]: edge {a:?} -> {b:?} awaits {kind:?} but no region is accessed that way by the source and conflictingly by the target"
                    );
                }
            }
        }
    }
    Ok(())
}

fn max_len(tier: Tier) -> usize {
    tier.pick(4, 6)
}

impl Property for C23Prop {
    fn id(&self) -> &'static str {
        "C23"
    }
    fn rule(&self) -> &'static str {
        "exhaustive: (through the cfg hook) every access sequence of length <= 6/8 over {read, write, capture} x {same node, next node} fed to the dependency queue and compared with the reference bookkeeping; every sequence of length <= 4 (quick) / <= 6 (thorough) over a 10-instruction alphabet on regions {ra, rb} (expression read, write, read-write, read-a-write-b, capture, raw-capture reading one region into the other, no-memory FENCE), each also with a JUMP-WHEN terminator reading ra; random: blocks of 0..14/24 instructions from the C22 generator (RF instructions with memory in expressions and capture targets, all classical operand forms over 3 regions, control flow). Non-trivial = a block contains both a write-after-read and a read-after-write on some region; distinct by program text."
    }
    fn max_words(&self) -> usize {
        500
    }
    fn cases(&self, tier: Tier) -> u64 {
        tier.pick(40_000, 1_000_000)
    }
    fn run(&self, src: &mut Src, ctx: &Ctx, out: &mut Outcome) -> Check {
        // word 0: mode; direct-mode enumeration uses mode 0 with explicit letters
        let mode = src.below(3);
        if mode == 2 {
            // the queue itself, through the hook
            let len = src.below(11);
            let code = ((src.word() as u64) << 32) | src.word() as u64;
            let steps = super::queue::decode(code, len, 3);
            out.set_key(&(2u8, &steps));
            out.class("queue-direct");
            out.nontrivial = steps.iter().any(|s| s.1 == 0) && steps.iter().any(|s| s.1 != 0);
            if ctx.render {
                out.render = Some(format!("memory queue accesses (node, 0=read 1=write 2=capture): {steps:?}"));
            }
            return super::queue::check_memory(&steps);
        }
        let (program, text) = if mode == 0 {
            let n = src.below(7);
            let letters: Vec<usize> = (0..n).map(|_| src.below(LETTERS)).collect();
            let with_terminator = src.chance(1, 2);
            let mut body: Vec<Instruction> = letters.iter().map(|l| letter(*l)).collect();
            if with_terminator {
                body.push(Instruction::JumpWhen(JumpWhen { target: Target::Fixed("end".into()), condition: mref("ra") }));
            }
            if src.chance(1, 8) {
                // a MEASURE is not schedulable; keeps the "does not schedule" path alive
                body.push(Instruction::Measurement(Measurement { name: None, qubit: Qubit::Fixed(0), target: Some(mref("ra")) }));
            }
            let p = rfprog::build_program(&[rf::frame(&[0], "a")], &body);
            (p, sched::texts(&body))
        } else {
            let opts = Opts { classical: true, control_flow: true, reset: true, rf_memory: true, timed_only: false, define_pct: 85, max_len: ctx.tier.pick(14, 24) };
            let g = rfprog::generate(src, &opts);
            let t = sched::texts(&g.body);
            (g.program, t)
        };
        let _ = classical::NUM_KINDS;
        out.set_key(&(mode, &text));
        if ctx.render {
            out.render = Some(text.clone());
        }
        oracle(&program, &text, out)
    }
    fn enumerate(&self, tier: Tier, shard: u64, nshards: u64, f: &mut dyn FnMut(Case) -> bool) {
        let mut counter = 0u64;
        // queue access sequences (kind x same-node flag per step)
        for len in 0..=tier.pick(6usize, 8usize) {
            let total = 6u64.pow(len as u32);
            for code in 0..total {
                counter += 1;
                if counter % nshards != shard {
                    continue;
                }
                if !f(Case::direct(vec![2, len as u32, (code >> 32) as u32, code as u32])) {
                    return;
                }
            }
        }
        for len in 0..=max_len(tier) {
            let total = (LETTERS as u64).pow(len as u32);
            for code in 0..total {
                for term in 0..2u32 {
                    counter += 1;
                    if counter % nshards != shard {
                        continue;
                    }
                    let mut words = vec![0u32, len as u32];
                    let mut c = code;
                    for _ in 0..len {
                        words.push((c % LETTERS as u64) as u32);
                        c /= LETTERS as u64;
                    }
                    words.push(term);
                    words.push(0);
                    if !f(Case::direct(words)) {
                        return;
                    }
                }
            }
        }
    }
    fn exhaustive_part(&self, tier: Tier) -> Option<String> {
        let n: u64 = (0..=max_len(tier)).map(|l| 2 * 10u64.pow(l as u32)).sum();
        Some(format!("all dependency-queue access sequences (3 kinds x same/next node) of length <= {}; all {n} program access sequences of length <= {} over the 10-letter alphabet, with and without a reading terminator", tier.pick(6, 8), max_len(tier)))
    }
}
