//! C24 — Frame conflicts are ordered and every frame edge is justified.
//!
//! Statement: "Take any two RF-control instructions in a block where one uses a frame that the
//! other uses or blocks. The later one depends (transitively) on the earlier through ordering
//! edges, and through timed edges when both are timed instructions. Every frame edge connects
//! such a conflicting pair or the block boundaries, and instructions that only block the same
//! frames are not ordered by it."
//!
//! used/blocked come from `DefaultHandler::matching_frames` (checked against the Quil-T rules in
//! C26). conflict(i,j) ⇔ used_i ∩ (used_j ∪ blocked_j) ≠ ∅ ∨ used_j ∩ blocked_i ≠ ∅.

use super::sched::{self, Edges, Frames};
use crate::engine::{lib, Check, Ctx, Outcome, Property, Src, Tier};
use crate::ensure;
use crate::gen::rfprog::{self, Opts};
use quil_rs::instruction::{DefaultHandler, InstructionRole};
use quil_rs::program::scheduling::{ExecutionDependency, ScheduledGraphNode, ScheduledProgram};

pub struct C24Prop;
pub static C24: C24Prop = C24Prop;

fn queue_max(tier: Tier) -> usize {
    tier.pick(8, 11)
}

impl Property for C24Prop {
    fn enumerate(&self, tier: Tier, shard: u64, nshards: u64, f: &mut dyn FnMut(crate::engine::Case) -> bool) {
        let mut counter = 0u64;
        for len in 0..=queue_max(tier) {
            let total = 4u64.pow(len as u32);
            for code in 0..total {
                counter += 1;
                if counter % nshards != shard {
                    continue;
                }
                if !f(crate::engine::Case::direct(vec![3, len as u32, (code >> 32) as u32, code as u32])) {
                    return;
                }
            }
        }
    }
    fn exhaustive_part(&self, tier: Tier) -> Option<String> {
        Some(format!("all frame-queue access sequences ({{uses, blocks}} x {{same node, next node}}) of length <= {}", queue_max(tier)))
    }
    fn id(&self) -> &'static str {
        "C24"
    }
    fn rule(&self) -> &'static str {
        "exhaustive (through the cfg hook): every frame-queue access sequence of length <= 8/11 compared with the reference bookkeeping; random blocks of 0..12 (quick) / 0..20 (thorough) instructions over frames {0 \"a\", 0 \"b\", 1 \"a\", 0 1 \"c\"} (each defined with probability 90%) and one undefined frame: blocking and non-blocking PULSE/CAPTURE/RAW-CAPTURE, DELAY (qubits, names), FENCE (all / qubits), SET/SHIFT, SWAP-PHASES, RESET q, RESET, interleaved with classical instructions. Non-trivial = a block with >= 2 conflicting pairs and >= 1 non-conflicting pair of RF instructions; distinct by program text."
    }
    fn max_words(&self) -> usize {
        400
    }
    fn cases(&self, tier: Tier) -> u64 {
        tier.pick(60_000, 1_500_000)
    }
    fn run(&self, src: &mut Src, ctx: &Ctx, out: &mut Outcome) -> Check {
        if src.below(4) == 3 {
            let len = src.below(13);
            let code = ((src.word() as u64) << 32) | src.word() as u64;
            let steps: Vec<(usize, bool)> = super::queue::decode(code, len, 2).into_iter().map(|(n, k)| (n, k == 1)).collect();
            out.set_key(&(2u8, &steps));
            out.class("queue-direct");
            out.nontrivial = steps.iter().any(|s| s.1) && steps.iter().any(|s| !s.1);
            if ctx.render {
                out.render = Some(format!("frame queue accesses (node, uses): {steps:?}"));
            }
            return super::queue::check_frame(&steps);
        }
        let opts = Opts { classical: src.chance(1, 3), control_flow: false, reset: true, rf_memory: false, timed_only: false, define_pct: 90, max_len: ctx.tier.pick(12, 20) };
        let g = rfprog::generate(src, &opts);
        let text = sched::texts(&g.body);
        out.set_key(&(g.defined.len(), &text));
        if ctx.render {
            out.render = Some(format!("frames {:?} ; {text}", g.defined.iter().map(sched::frame_text).collect::<Vec<_>>()));
        }
        let scheduled = match lib(|| ScheduledProgram::from_program(&g.program, &DefaultHandler))? {
            Ok(s) => s,
            Err(_) => {
                out.class("does-not-schedule");
                return Ok(());
            }
        };
        for (bi, block) in scheduled.basic_blocks().iter().enumerate() {
            let edges = Edges::of(block.get_dependency_graph());
            let nodes = sched::block_nodes(block);
            let rf: Vec<(ScheduledGraphNode, Frames, bool)> = nodes
                .iter()
                .filter(|(_, i)| sched::role(i) == InstructionRole::RFControl)
                .map(|(n, i)| (*n, sched::matched(&g.program, i).unwrap_or_default(), sched::is_scheduled(i)))
                .collect();
            let (mut conflicts, mut free) = (0, 0);
            for i in 0..rf.len() {
                let ordered = edges.reachable(rf[i].0, &|w| w.contains(&ExecutionDependency::StableOrdering));
                let timed = edges.reachable(rf[i].0, &|w| w.contains(&ExecutionDependency::Scheduled));
                for j in i + 1..rf.len() {
                    if sched::conflict(&rf[i].1, &rf[j].1) {
                        conflicts += 1;
                        ensure!(
                            ordered.contains(&rf[j].0),
                            "c24:conflict-not-ordered",
                            "block {bi} of [{text}]: {:?} and {:?} conflict on a frame but there is no ordering path",
                            rf[i].0,
                            rf[j].0
                        );
                        if rf[i].2 && rf[j].2 {
                            ensure!(
                                timed.contains(&rf[j].0),
                                "c24:conflict-not-timed",
                                "block {bi} of [{text}]: timed instructions {:?} and {:?} conflict on a frame but there is no path of timed edges",
                                rf[i].0,
                                rf[j].0
                            );
                        }
                    } else {
                        free += 1;
                    }
                }
            }
            if conflicts >= 2 && free >= 1 {
                out.nontrivial = true;
            }
            // every frame edge between two instructions joins a conflicting pair of RF instructions
            for (a, b, w) in &edges.all {
                let frame_edge = w.contains(&ExecutionDependency::StableOrdering) || w.contains(&ExecutionDependency::Scheduled);
                if !frame_edge {
                    continue;
                }
                let is_boundary = |n: &ScheduledGraphNode| matches!(n, ScheduledGraphNode::BlockStart) || (matches!(n, ScheduledGraphNode::BlockEnd));
                if is_boundary(a) || is_boundary(b) {
                    continue;
                }
                let fa = rf.iter().find(|(n, _, _)| n == a);
                let fb = rf.iter().find(|(n, _, _)| n == b);
                match (fa, fb) {
                    (Some(x), Some(y)) => {
                        ensure!(
                            sched::conflict(&x.1, &y.1),
                            "c24:unjustified-frame-edge",
                            "block {bi} of [{text}]: frame edge {a:?} -> {b:?} ({w:?}) joins instructions that do not conflict on any frame (used/blocked: {:?} vs {:?})",
                            x.1,
                            y.1
                        );
                        if w.contains(&ExecutionDependency::Scheduled) {
                            ensure!(x.2 && y.2, "c24:timed-edge-on-untimed", "block {bi} of [{text}]: timed edge {a:?} -> {b:?} touches an instruction that is not timed");
                        }
                    }
                    _ => crate::fail!("c24:frame-edge-on-non-rf", "block {bi} of [{text}]: frame edge {a:?} -> {b:?} ({w:?}) touches a non-RF instruction"),
                }
            }
        }
        Ok(())
    }
}
