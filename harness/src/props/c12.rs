//! C12 — Expression simplification preserves the expression's value.
//!
//! Statement: "For every expression e and every assignment where e evaluates to a finite value,
//! the simplified form of e evaluates to the same value up to floating-point rounding.
//! Simplification never introduces new variables or memory references, and never returns the
//! symbolic constant pi."
//!
//! Oracle: reference value from `model::eval` at three generic assignments (complex values for
//! variables, reals for memory). A point is compared only if the reference value is finite, off
//! every branch cut, has no zero-base power and is stable under 1e-9 relative perturbation of
//! every leaf (so that re-association by the simplifier cannot legitimately move it by more than
//! ~1e-11); then |v - v'| <= 1e-6·max(1,|v|) is required. Literal magnitudes are 0 or within
//! [1/16, 16], so the simplifier's documented "|x| < 1e-10 is zero" folding threshold never
//! decides a case.

use crate::engine::{lib, Check, Ctx, Outcome, Property, Src, Tier};
use crate::gen::expr::{self as gx, ExprCfg, Literals};
use crate::model::eval::{self, Env, Screen};
use crate::{ensure, fail};
use num_complex::Complex64;
use quil_rs::expression::{Expression, InfixOperator, PrefixOperator};
use quil_rs::quil::Quil;
use std::collections::HashMap;

pub struct C12Prop;
pub static C12: C12Prop = C12Prop;

fn names() -> (Vec<String>, Vec<(String, u64)>) {
    (vec!["x".into(), "y".into(), "z".into()], vec![("a".into(), 2), ("b".into(), 2)])
}

fn assignments() -> Vec<Env> {
    // fixed generic points: no special relations between them
    let pts: [[f64; 10]; 3] = [
        [1.37, 0.41, -0.83, 1.19, 2.11, -0.57, 0.73, 1.91, -1.29, 0.61],
        [-0.66, 1.52, 1.23, -0.35, 0.47, 0.89, -1.71, 0.58, 2.03, -0.94],
        [2.0, 0.0, 3.0, 0.0, 5.0, 0.0, 1.0, 2.0, 3.0, 4.0],
    ];
    pts.iter()
        .map(|p| {
            let mut vars = HashMap::new();
            vars.insert("x".to_string(), Complex64::new(p[0], p[1]));
            vars.insert("y".to_string(), Complex64::new(p[2], p[3]));
            vars.insert("z".to_string(), Complex64::new(p[4], p[5]));
            let mut mem = HashMap::new();
            mem.insert("a".to_string(), vec![p[6], p[7]]);
            mem.insert("b".to_string(), vec![p[8], p[9]]);
            Env { vars, mem }
        })
        .collect()
}

fn classify(e: &Expression, out: &mut Outcome) {
    let is_neg = |x: &Expression| matches!(x, Expression::Prefix(p) if p.operator == PrefixOperator::Minus);
    if gx::any_node(e, &|n| matches!(n, Expression::Infix(i) if matches!(i.operator, InfixOperator::Slash | InfixOperator::Star) && (is_neg(&i.left) || is_neg(&i.right)))) {
        out.class("mul-div-by-negation");
    }
    if gx::any_node(e, &|n| {
        matches!(n, Expression::Infix(i) if matches!(&*i.left, Expression::Infix(l) if l.operator == i.operator) || matches!(&*i.right, Expression::Infix(r) if r.operator == i.operator))
    }) {
        out.class("nested-same-operator");
    }
    if gx::any_node(e, &|n| matches!(n, Expression::Infix(i) if i.left == i.right)) {
        out.class("equal-operands");
    }
    if gx::any_node(e, &|n| matches!(n, Expression::FunctionCall(f) if !gx::any_node(&f.expression, &|m| matches!(m, Expression::Variable(_) | Expression::Address(_))))) {
        out.class("function-of-constant");
    }
    if gx::any_node(e, &|n| matches!(n, Expression::Prefix(p) if matches!(&*p.expression, Expression::Prefix(_)))) {
        out.class("nested-prefix");
    }
}

/// The simplifier documents that a folded constant with |c| < 1e-10 is treated as 0 (and within
/// 1e-10 of 1 as 1). A constant subexpression that is non-zero but that small — in practice
/// rounding noise such as sin(pi) = 1.2e-16, or the reciprocal of a huge constant such as
/// (1+2.5i)^exp(pi) ≈ 1e10 — makes the threshold decide the case, which the
/// property's "up to floating-point rounding" does not cover; such inputs are skipped and counted.
fn has_near_threshold_constant(e: &Expression) -> bool {
    let env = Env::default();
    let is_constant = |n: &Expression| !gx::any_node(n, &|m| matches!(m, Expression::Variable(_) | Expression::Address(_)));
    let value = |n: &Expression| {
        let mut d = eval::Diag::default();
        eval::eval(n, &env, &mut None, &mut d).filter(|c| eval::finite(*c))
    };
    // (1) a single constant subexpression already near 0 / 1 or huge (its reciprocal is what the
    //     rewrites fold next)
    let single = gx::any_node(e, &|n| {
        if matches!(n, Expression::Number(_)) || !is_constant(n) {
            return false;
        }
        match value(n) {
            Some(c) => {
                let a = c.norm();
                let b = (c - 1.0).norm();
                (a > 0.0 && (a < 1e-7 || a > 1e7)) || (b > 0.0 && b < 1e-7)
            }
            None => false,
        }
    });
    if single {
        return true;
    }
    // (1b) a subtree that only *looks* non-constant (`c + %x*0`) is folded to a constant as well:
    //      look at the value of every compound subtree at the first assignment too
    let first = &assignments()[0];
    let hidden = gx::any_node(e, &|n| {
        if matches!(n, Expression::Number(_) | Expression::Variable(_) | Expression::Address(_) | Expression::PiConstant()) {
            return false;
        }
        let mut d = eval::Diag::default();
        match eval::eval(n, first, &mut None, &mut d) {
            Some(c) if eval::finite(c) => {
                let a = c.norm();
                a > 0.0 && (a < 1e-7 || a > 1e7)
            }
            _ => false,
        }
    });
    if hidden {
        return true;
    }
    // (2) the rewrites may multiply or divide any of the constants of the tree with each other
    //     (exp(-16)*(exp(-16)*x) folds 1.3e-14): if the magnitudes of the maximal constant subtrees
    //     could combine to something beyond 1e-9 .. 1e9, the threshold may decide the case
    fn budget(n: &Expression, is_constant: &dyn Fn(&Expression) -> bool, value: &dyn Fn(&Expression) -> Option<num_complex::Complex64>) -> f64 {
        if is_constant(n) {
            return match value(n) {
                Some(c) if c.norm() > 0.0 => c.norm().log10().abs(),
                _ => 0.0,
            };
        }
        match n {
            Expression::Infix(i) => budget(&i.left, is_constant, value) + budget(&i.right, is_constant, value),
            Expression::Prefix(p) => budget(&p.expression, is_constant, value),
            Expression::FunctionCall(f) => budget(&f.expression, is_constant, value),
            _ => 0.0,
        }
    }
    budget(e, &is_constant, &value) > 9.0
}

pub fn oracle(e: &Expression, out: &mut Outcome, whole_tree_pi: bool) -> Check {
    let s = lib(|| e.clone().into_simplified())?;
    let s2 = lib(|| {
        let mut c = e.clone();
        c.simplify();
        c
    })?;
    ensure!(s == s2, "c12:simplify-vs-into", "simplify() and into_simplified() differ for {}", e.to_quil_or_debug());

    // no new names, no pi
    let (mut ve, mut vs) = (vec![], vec![]);
    gx::variables(e, &mut ve);
    gx::variables(&s, &mut vs);
    for v in &vs {
        ensure!(ve.contains(v), "c12:new-variable", "simplified form of {} mentions new variable %{v}", e.to_quil_or_debug());
    }
    let (mut ae, mut as_) = (vec![], vec![]);
    gx::addresses(e, &mut ae);
    gx::addresses(&s, &mut as_);
    for a in &as_ {
        ensure!(ae.contains(a), "c12:new-memory-reference", "simplified form of {} mentions new reference {}[{}]", e.to_quil_or_debug(), a.0, a.1);
    }
    ensure!(!matches!(s, Expression::PiConstant()), "c12:pi-returned", "simplification returned pi for {}", e.to_quil_or_debug());
    if whole_tree_pi {
        ensure!(
            !gx::any_node(&s, &|n| matches!(n, Expression::PiConstant())),
            "c12:pi-inside",
            "simplified form {} of {} still contains pi",
            s.to_quil_or_debug(),
            e.to_quil_or_debug()
        );
    }

    if has_near_threshold_constant(e) {
        out.skip = Some("near-threshold-constant");
        return Ok(());
    }
    let has_name = !ve.is_empty() || !ae.is_empty();
    out.nontrivial = s != *e && has_name;
    let mut compared = 0;
    for (k, env) in assignments().iter().enumerate() {
        let screened = match eval::eval_screened(e, env, 1e-4) {
            // 0^0 = 1 is compared only when it does not hinge on the assignment
            Screen::ZeroPowZero(v) if !has_name => Screen::Ok(v),
            other => other,
        };
        match screened {
            Screen::Ok(v) => {
                let lv: HashMap<&str, Complex64> = env.vars.iter().map(|(k, v)| (k.as_str(), *v)).collect();
                let lm: HashMap<&str, Vec<f64>> = env.mem.iter().map(|(k, v)| (k.as_str(), v.clone())).collect();
                let got = lib(|| s.evaluate(&lv, &lm))?;
                match got {
                    Ok(w) => {
                        if !(eval::finite(w) && eval::close(v, w, 1e-6)) {
                            fail!(
                                signature(e, &s),
                                "e = {} simplifies to {} ; at assignment #{k} e = {v} but simplified = {w}",
                                e.to_quil_or_debug(),
                                s.to_quil_or_debug()
                            );
                        }
                        compared += 1;
                    }
                    Err(err) => fail!("c12:simplified-does-not-evaluate", "simplified {} fails to evaluate: {err:?}", s.to_quil_or_debug()),
                }
            }
            Screen::Incomplete => fail!("harness:c12-incomplete", "assignment incomplete"),
            Screen::NonFinite => out.class("point-nonfinite"),
            Screen::BranchCut => out.class("point-branch-cut"),
            Screen::ZeroBase | Screen::ZeroPowZero(_) => out.class("point-zero-base"),
            Screen::IllConditioned => out.class("point-ill-conditioned"),
        }
    }
    if compared == 0 {
        out.skip = Some("no-comparable-point");
    }
    Ok(())
}

/// Root-cause key for a value mismatch: the operator at the root of the smallest failing shape is
/// not known here, so the key is the generic one; known findings refine it by replay.
fn signature(_e: &Expression, _s: &Expression) -> String {
    "c12:value-changed".to_string()
}

/// Rule-directed shapes: every left-hand side the simplifier documents, in every orientation of
/// its operands, over small random atoms (so that shared factors / equal operands actually occur),
/// optionally wrapped in one more operator.
fn template(src: &mut Src, cfg: &ExprCfg) -> Expression {
    use quil_rs::expression::InfixOperator::*;
    let small = ExprCfg { max_depth: 1, share_pct: 0, ..*cfg };
    let atom = |src: &mut Src| if src.chance(1, 4) { gx::expr(src, &small) } else { gx::leaf(src, &small) };
    let x = atom(src);
    let (a, b, c, d) = (atom(src), atom(src), atom(src), atom(src));
    let neg = |e: Expression| gx::prefix(PrefixOperator::Minus, e);
    let mul2 = |src: &mut Src, l: &Expression, r: &Expression| if src.chance(1, 2) { gx::infix(l.clone(), Star, r.clone()) } else { gx::infix(r.clone(), Star, l.clone()) };
    let ops = [Plus, Minus, Star, Slash, Caret];
    let e = match src.below(16) {
        0 => {
            // (a1*x + b1) + (a2*x + b2), all four factor orientations
            let p1 = mul2(src, &a, &x);
            let p2 = mul2(src, &c, &x);
            gx::infix(gx::infix(p1, Plus, b.clone()), Plus, gx::infix(p2, Plus, d.clone()))
        }
        1 => {
            let p1 = mul2(src, &a, &x);
            let p2 = mul2(src, &c, &x);
            gx::infix(p1, Plus, p2)
        }
        2 => gx::infix(gx::infix(x.clone(), Plus, b.clone()), Plus, gx::infix(x.clone(), Plus, d.clone())),
        3 => {
            // a op (b op2 c)
            let (o1, o2) = (*src.pick(&ops), *src.pick(&ops));
            gx::infix(a.clone(), o1, gx::infix(b.clone(), o2, c.clone()))
        }
        4 => {
            let (o1, o2) = (*src.pick(&ops), *src.pick(&ops));
            gx::infix(gx::infix(a.clone(), o2, b.clone()), o1, c.clone())
        }
        5 => {
            // cancellations with a shared operand in every position
            let inner = mul2(src, &a, &b);
            match src.below(4) {
                0 => gx::infix(inner, Slash, a.clone()),
                1 => gx::infix(a.clone(), Slash, inner),
                2 => gx::infix(gx::infix(b.clone(), Slash, a.clone()), Star, a.clone()),
                _ => gx::infix(a.clone(), Star, gx::infix(b.clone(), Slash, a.clone())),
            }
        }
        6 => {
            let o = *src.pick(&ops);
            match src.below(3) {
                0 => gx::infix(a.clone(), o, neg(b.clone())),
                1 => gx::infix(neg(a.clone()), o, b.clone()),
                _ => gx::infix(neg(a.clone()), o, neg(b.clone())),
            }
        }
        7 => {
            if src.chance(1, 2) {
                gx::infix(neg(a.clone()), Slash, a.clone())
            } else {
                gx::infix(a.clone(), Slash, neg(a.clone()))
            }
        }
        8 => {
            let o = *src.pick(&ops);
            gx::infix(a.clone(), o, a.clone())
        }
        9 => {
            // identities with 0 and 1 on either side
            let k = gx::num(if src.chance(1, 2) { 0.0 } else { 1.0 }, 0.0);
            let o = *src.pick(&ops);
            if src.chance(1, 2) {
                gx::infix(a.clone(), o, k)
            } else {
                gx::infix(k, o, a.clone())
            }
        }
        10 => {
            // distribution
            if src.chance(1, 2) {
                gx::infix(a.clone(), Star, gx::infix(b.clone(), Plus, c.clone()))
            } else {
                gx::infix(gx::infix(a.clone(), Plus, b.clone()), Star, c.clone())
            }
        }
        11 => {
            // mul inside div / div inside mul without cancellation
            match src.below(4) {
                0 => gx::infix(gx::infix(a.clone(), Star, b.clone()), Slash, c.clone()),
                1 => gx::infix(a.clone(), Slash, gx::infix(b.clone(), Star, c.clone())),
                2 => gx::infix(gx::infix(a.clone(), Slash, b.clone()), Star, c.clone()),
                _ => gx::infix(a.clone(), Star, gx::infix(b.clone(), Slash, c.clone())),
            }
        }
        12 => neg(neg(a.clone())),
        13 => {
            let f = *src.pick(&gx::FUNCTIONS);
            gx::call(f, gx::infix(a.clone(), *src.pick(&ops), b.clone()))
        }
        14 => {
            // (-a - b), a - (-b), a + (-b), (-a) + b
            match src.below(4) {
                0 => gx::infix(neg(a.clone()), Minus, b.clone()),
                1 => gx::infix(a.clone(), Minus, neg(b.clone())),
                2 => gx::infix(a.clone(), Plus, neg(b.clone())),
                _ => gx::infix(neg(a.clone()), Plus, b.clone()),
            }
        }
        _ => {
            // two-level nesting of the same operator on both sides
            let o = *src.pick(&[Plus, Minus, Star, Slash]);
            gx::infix(gx::infix(a.clone(), o, b.clone()), o, gx::infix(c.clone(), o, d.clone()))
        }
    };
    // optional context
    match src.below(4) {
        0 => gx::infix(e, *src.pick(&ops), atom(src)),
        1 => gx::infix(atom(src), *src.pick(&ops), e),
        _ => e,
    }
}

impl Property for C12Prop {
    fn id(&self) -> &'static str {
        "C12"
    }
    fn rule(&self) -> &'static str {
        "random expression trees of depth <= 4 (quick) / <= 6 (thorough) (half of the cases; the other half are rule-directed templates: every documented left-hand side of the simplifier in every operand orientation over small random atoms, optionally wrapped in one more operator) over numbers {0, k/2^j, reals and complex with |re|,|im| in [0.25,4]}, pi, variables {x,y,z}, memory {a[0..1], b[0..1]}, 5 functions, prefix +/-, 5 infix operators, with 30% reuse of earlier subtrees; compared at 3 fixed generic assignments after finite / branch-cut / zero-base / conditioning screens. Non-trivial = simplified form differs structurally from the input and the input mentions a variable or memory reference; distinct by structural hash of the input."
    }
    fn assumptions(&self) -> Vec<&'static str> {
        vec![
            "value equality is sampled at 3 assignments; points where the reference value is non-finite, on a branch cut, has a zero power base, or moves by more than 1e-4 relative under 1e-9 leaf perturbations are not compared (counted in classes)",
            "literal magnitudes stay away from the simplifier's documented 1e-10 zero threshold",
        ]
    }
    fn max_words(&self) -> usize {
        600
    }
    fn cases(&self, tier: Tier) -> u64 {
        tier.pick(300_000, 4_000_000)
    }
    fn run(&self, src: &mut Src, ctx: &Ctx, out: &mut Outcome) -> Check {
        let (vars, regions) = names();
        let cfg = ExprCfg {
            max_depth: ctx.tier.pick(4, 6),
            vars: &vars,
            regions: &regions,
            literals: Literals::Moderate,
            share_pct: 30,
            prefix_plus: true,
            allow_pi: true,
            allow_variables: true,
            complex_numbers: true,
        };
        let e = if src.chance(1, 2) {
            out.class("template");
            template(src, &cfg)
        } else {
            gx::expr(src, &cfg)
        };
        out.key = gx::structural_hash(&e);
        classify(&e, out);
        if ctx.render {
            out.render = Some(e.to_quil_or_debug());
        }
        oracle(&e, out, true)
    }
    fn run_text(&self, text: &str, _ctx: &Ctx, out: &mut Outcome) -> Check {
        use std::str::FromStr;
        let e = Expression::from_str(text).map_err(|e| crate::engine::Failure { sig: "harness:c12-text".into(), msg: format!("{e}") })?;
        out.render = Some(text.to_string());
        oracle(&e, out, true)
    }
    fn floors(&self) -> Vec<(&'static str, f64)> {
        vec![("mul-div-by-negation", 0.01), ("nested-same-operator", 0.01), ("equal-operands", 0.01), ("function-of-constant", 0.01)]
    }
}
