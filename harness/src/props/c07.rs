//! C07 — Quoted strings survive printing and parsing unchanged.
//!
//! Statement: "Every string value the program holds survives serialization and re-parsing
//! unchanged, whatever quotes, backslashes, newlines or other characters it contains. This covers
//! pragma data, include file names, frame names (in frame identifiers and in DELAY), and string
//! frame attributes."
//!
//! A case is (position, string[, second string]); the instruction is built through the public API,
//! placed in a program with a neutral neighbour on each side, printed with `to_quil`, parsed back,
//! and the string is extracted from the same position of the parsed program (byte equality); the
//! whole re-parsed program must also be `==` the original.

use crate::engine::{lib, Case, Check, Ctx, Outcome, Property, Src, Tier};
use crate::gen::rf;
use crate::{ensure, fail};
use quil_rs::instruction::{
    AttributeValue, Delay, FrameAttributes, FrameDefinition, FrameIdentifier, Include, Instruction, Pragma, PragmaArgument, Qubit,
};
use quil_rs::quil::Quil;
use quil_rs::Program;
use std::str::FromStr;

pub struct C07Prop;
pub static C07: C07Prop = C07Prop;

/// The alphabet of the property's quantifier plus a few more characters that are special to the lexer.
const ALPHABET: [char; 16] = ['"', '\\', '\n', ' ', '#', ';', 'a', 'Z', '\t', '%', '@', ':', '0', 'é', '𝄞', '\''];
/// The six characters enumerated exhaustively (up to length 3) in the exhaustive part.
const SPECIAL: [char; 6] = ['"', '\\', '\n', '#', ';', 'a'];

const POSITIONS: [&str; 19] = [
    "pragma-data",
    "pragma-extern-data",
    "include",
    "defframe-name",
    "defframe-attribute",
    "pulse-frame",
    "capture-frame",
    "raw-capture-frame",
    "set-frequency-frame",
    "set-phase-frame",
    "set-scale-frame",
    "shift-frequency-frame",
    "shift-phase-frame",
    "swap-phases-frames",
    "delay-one-name",
    "delay-two-names",
    "defcircuit-body-pragma-data",
    "defcal-body-frame-name",
    "defcal-measure-body-pragma-data",
];

fn frame(name: &str) -> FrameIdentifier {
    FrameIdentifier { name: name.to_string(), qubits: vec![Qubit::Fixed(0)] }
}

fn build(position: usize, s: &str, s2: &str) -> Instruction {
    let ro = rf::mref("ro", 0);
    match position {
        0 => Instruction::Pragma(Pragma { name: "NOTE".into(), arguments: vec![PragmaArgument::Identifier("x".into()), PragmaArgument::Integer(1)], data: Some(s.to_string()) }),
        1 => Instruction::Pragma(Pragma { name: "EXTERN".into(), arguments: vec![PragmaArgument::Identifier("fext".into())], data: Some(s.to_string()) }),
        2 => Instruction::Include(Include { filename: s.to_string() }),
        3 => {
            let mut attributes = FrameAttributes::new();
            attributes.insert("SAMPLE-RATE".into(), AttributeValue::Expression(rf::real(1.0)));
            Instruction::FrameDefinition(FrameDefinition { identifier: frame(s), attributes })
        }
        4 => {
            let mut attributes = FrameAttributes::new();
            attributes.insert("HARDWARE-OBJECT".into(), AttributeValue::String(s.to_string()));
            attributes.insert("DIRECTION".into(), AttributeValue::String(s2.to_string()));
            Instruction::FrameDefinition(FrameDefinition { identifier: frame("f"), attributes })
        }
        5 => rf::pulse(true, &frame(s), rf::flat(1.0)),
        6 => rf::capture(false, &frame(s), rf::flat(1.0), ro),
        7 => rf::raw_capture(true, &frame(s), rf::real(1.0), ro),
        8 => rf::set_frequency(&frame(s), rf::real(1.0)),
        9 => rf::set_phase(&frame(s), rf::real(1.0)),
        10 => rf::set_scale(&frame(s), rf::real(1.0)),
        11 => rf::shift_frequency(&frame(s), rf::real(1.0)),
        12 => rf::shift_phase(&frame(s), rf::real(1.0)),
        13 => rf::swap_phases(&frame(s), &frame(s2)),
        14 => Instruction::Delay(Delay { duration: rf::real(1.0), frame_names: vec![s.to_string()], qubits: vec![Qubit::Fixed(0)] }),
        16 => Instruction::CircuitDefinition(quil_rs::instruction::CircuitDefinition {
            name: "CIRC".into(),
            parameters: vec![],
            qubit_variables: vec!["q".into()],
            instructions: vec![Instruction::Nop(), build(0, s, s2), Instruction::Nop()],
        }),
        17 => Instruction::CalibrationDefinition(quil_rs::instruction::CalibrationDefinition {
            identifier: quil_rs::instruction::CalibrationIdentifier::new("X".into(), vec![], vec![], vec![Qubit::Fixed(0)]).unwrap(),
            instructions: vec![build(5, s, s2), Instruction::Nop()],
        }),
        18 => Instruction::MeasureCalibrationDefinition(quil_rs::instruction::MeasureCalibrationDefinition {
            identifier: quil_rs::instruction::MeasureCalibrationIdentifier { name: None, qubit: Qubit::Fixed(0), target: Some("addr".into()) },
            instructions: vec![Instruction::Nop(), build(0, s, s2)],
        }),
        _ => Instruction::Delay(Delay { duration: rf::real(1.0), frame_names: vec![s.to_string(), s2.to_string()], qubits: vec![Qubit::Fixed(0), Qubit::Fixed(1)] }),
    }
}

/// The strings held at `position` of the instruction (same order as `build` takes them).
fn extract(position: usize, i: &Instruction) -> Option<Vec<String>> {
    Some(match (position, i) {
        (0 | 1, Instruction::Pragma(p)) => vec![p.data.clone()?],
        (2, Instruction::Include(x)) => vec![x.filename.clone()],
        (3, Instruction::FrameDefinition(f)) => vec![f.identifier.name.clone()],
        (4, Instruction::FrameDefinition(f)) => {
            let get = |k: &str| match f.attributes.get(k) {
                Some(AttributeValue::String(s)) => Some(s.clone()),
                _ => None,
            };
            vec![get("HARDWARE-OBJECT")?, get("DIRECTION")?]
        }
        (5, Instruction::Pulse(x)) => vec![x.frame.name.clone()],
        (6, Instruction::Capture(x)) => vec![x.frame.name.clone()],
        (7, Instruction::RawCapture(x)) => vec![x.frame.name.clone()],
        (8, Instruction::SetFrequency(x)) => vec![x.frame.name.clone()],
        (9, Instruction::SetPhase(x)) => vec![x.frame.name.clone()],
        (10, Instruction::SetScale(x)) => vec![x.frame.name.clone()],
        (11, Instruction::ShiftFrequency(x)) => vec![x.frame.name.clone()],
        (12, Instruction::ShiftPhase(x)) => vec![x.frame.name.clone()],
        (13, Instruction::SwapPhases(x)) => vec![x.frame_1.name.clone(), x.frame_2.name.clone()],
        (14 | 15, Instruction::Delay(d)) => d.frame_names.clone(),
        (16, Instruction::CircuitDefinition(c)) => c.instructions.iter().find_map(|i| extract(0, i))?,
        (17, Instruction::CalibrationDefinition(c)) => c.instructions.iter().find_map(|i| extract(5, i))?,
        (18, Instruction::MeasureCalibrationDefinition(c)) => c.instructions.iter().find_map(|i| extract(0, i))?,
        _ => return None,
    })
}

fn class_of(s: &str) -> Option<&'static str> {
    if s.contains('"') {
        Some("has-quote")
    } else if s.contains('\\') {
        Some("has-backslash")
    } else if s.contains('\n') {
        Some("has-newline")
    } else if s.contains('#') || s.contains(';') {
        Some("has-comment-or-separator")
    } else {
        None
    }
}

pub fn oracle(position: usize, s: &str, s2: &str, out: &mut Outcome) -> Check {
    let pos_name = POSITIONS[position];
    let instruction = build(position, s, s2);
    let mut program = Program::new();
    program.add_instruction(Instruction::Nop());
    program.add_instruction(instruction.clone());
    program.add_instruction(Instruction::Halt());
    let held = extract(position, &instruction).unwrap_or_default();
    out.nontrivial = held.iter().any(|h| class_of(h).is_some());
    for h in &held {
        if let Some(c) = class_of(h) {
            out.class(c);
        }
    }
    let what = |h: &[String]| -> &'static str {
        if h.iter().any(|x| x.contains('"')) {
            "quote"
        } else if h.iter().any(|x| x.contains('\\')) {
            "backslash"
        } else if h.iter().any(|x| x.contains('\n')) {
            "newline"
        } else {
            "other"
        }
    };
    let text = match lib(|| program.to_quil())? {
        Ok(t) => t,
        Err(e) => fail!(format!("c07:to-quil-error:{pos_name}"), "{pos_name} holding {held:?} does not serialize: {e:?}"),
    };
    let parsed = match lib(|| Program::from_str(&text))? {
        Ok(p) => p,
        Err(e) => fail!(
            format!("c07:reparse-error:{pos_name}:{}", what(&held)),
            "{pos_name} holding {held:?} prints as {text:?}, which does not parse: {e}"
        ),
    };
    let listing = lib(|| parsed.to_instructions())?;
    let found: Vec<Vec<String>> = listing.iter().filter_map(|i| extract(position, i)).collect();
    ensure!(
        found.len() == 1,
        format!("c07:position-lost:{pos_name}:{}", what(&held)),
        "{pos_name} holding {held:?} prints as {text:?}; the re-parsed program has {} instructions of that kind: {:?}",
        found.len(),
        listing.iter().map(|i| i.to_quil_or_debug()).collect::<Vec<_>>()
    );
    ensure!(
        found[0] == held,
        format!("c07:string-changed:{pos_name}:{}", what(&held)),
        "{pos_name}: held {held:?}, printed {text:?}, re-parsed {:?}",
        found[0]
    );
    ensure!(parsed == program, format!("c07:program-changed:{pos_name}"), "{pos_name} holding {held:?}: the re-parsed program differs from the original; text {text:?}");
    Ok(())
}

fn string(src: &mut Src, max: usize) -> String {
    let n = src.below(max + 1);
    (0..n).map(|_| if src.chance(1, 2) { *src.pick(&SPECIAL) } else { *src.pick(&ALPHABET) }).collect()
}

impl Property for C07Prop {
    fn id(&self) -> &'static str {
        "C07"
    }
    fn rule(&self) -> &'static str {
        "exhaustive: every string of length <= 2 (quick) / <= 3 (thorough) over the six characters {\" \\ LF # ; a} in each of 19 string-bearing positions (PRAGMA data, PRAGMA EXTERN data, INCLUDE, DEFFRAME name, two string frame attributes, frame name of PULSE / CAPTURE / RAW-CAPTURE / SET-FREQUENCY / SET-PHASE / SET-SCALE / SHIFT-FREQUENCY / SHIFT-PHASE, both frames of SWAP-PHASES, one and two DELAY frame names, PRAGMA data inside a DEFCIRCUIT body and inside a DEFCAL MEASURE body, a frame name inside a DEFCAL body; second string = reversed first); random: strings of length <= 12 over 16 characters (adds space, TAB, %, @, :, digits, an accented letter, an astral-plane character, a single quote) with the six special ones over-weighted. Non-trivial = a held string contains a quote, backslash, newline, # or ;. Distinct by (position, strings)."
    }
    fn max_words(&self) -> usize {
        2 + 2 * 26
    }
    fn cases(&self, tier: Tier) -> u64 {
        tier.pick(60_000, 1_000_000)
    }
    fn run(&self, src: &mut Src, ctx: &Ctx, out: &mut Outcome) -> Check {
        let position = src.below(POSITIONS.len());
        let (s, s2) = if src.is_direct() {
            // enumeration: words are [position, len, c0, c1, ...]
            let n = src.below(4);
            let s: String = (0..n).map(|_| SPECIAL[src.below(SPECIAL.len())]).collect();
            let s2: String = s.chars().rev().collect();
            (s, s2)
        } else {
            (string(src, 12), string(src, 12))
        };
        out.set_key(&(position, &s, &s2));
        out.class(POSITIONS[position]);
        if ctx.render {
            out.render = Some(format!("{} {s:?} {s2:?}", POSITIONS[position]));
        }
        oracle(position, &s, &s2, out)
    }
    /// `<position name>\n<string>` (the second string is the first reversed).
    fn run_text(&self, text: &str, _ctx: &Ctx, out: &mut Outcome) -> Check {
        let (pos, s) = text.split_once('\n').unwrap_or((text, ""));
        let Some(position) = POSITIONS.iter().position(|p| *p == pos) else { fail!("harness:c07-text", "unknown position {pos:?}") };
        let s2: String = s.chars().rev().collect();
        out.set_key(&(position, s));
        oracle(position, s, &s2, out)
    }
    fn enumerate(&self, tier: Tier, shard: u64, nshards: u64, f: &mut dyn FnMut(Case) -> bool) {
        let maxlen = tier.pick(2, 3);
        let mut counter = 0u64;
        for position in 0..POSITIONS.len() {
            for len in 0..=maxlen {
                for code in 0..(SPECIAL.len() as u64).pow(len as u32) {
                    counter += 1;
                    if counter % nshards != shard {
                        continue;
                    }
                    let mut words = vec![position as u32, len as u32];
                    let mut c = code;
                    for _ in 0..len {
                        words.push((c % SPECIAL.len() as u64) as u32);
                        c /= SPECIAL.len() as u64;
                    }
                    if !f(Case::direct(words)) {
                        return;
                    }
                }
            }
        }
    }
    fn exhaustive_part(&self, tier: Tier) -> Option<String> {
        let maxlen = tier.pick(2u32, 3u32);
        let n: u64 = (0..=maxlen).map(|l| 6u64.pow(l)).sum::<u64>() * POSITIONS.len() as u64;
        Some(format!("all {n} (position, string) pairs with strings of length <= {maxlen} over the 6 special characters in 19 positions"))
    }
    fn floors(&self) -> Vec<(&'static str, f64)> {
        vec![("has-quote", 0.2), ("has-backslash", 0.1), ("delay-one-name", 0.03), ("include", 0.03)]
    }
}
