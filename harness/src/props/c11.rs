//! C11 — Program concatenation appends bodies and merges definitions.
//!
//! Statement clauses checked, for generated pairs (A, B) with overlapping and disjoint keys:
//!  (a) "the body of A+B (and of A+=B) is A's body followed by B's";
//!  (b) "Each definition keyed in both takes B's value and every other definition is kept"
//!      — per kind the listing of A+B holds exactly the reference merge (compared as key→value
//!      sets; order within a kind is C08's clause, but A's keys keeping their position is checked
//!      as part of C08's A+B route);
//!  (c) "the used-qubit set is the union";
//!  (d) "Concatenation with an empty program is an identity" — `A + ∅` and `∅ + A` are `==` A,
//!      list the same instructions and print the same text;
//!  `+` and `+=` agree (same `==`, listing, text, used qubits).

use crate::engine::{lib, Check, Ctx, Outcome, Property, Src, Tier};
use crate::gen::defs::{self, Item, Kind, Model, SeqCfg, DEF_KINDS};
use crate::{ensure, fail};
use quil_rs::instruction::{Instruction, Qubit};
use quil_rs::quil::Quil;
use quil_rs::Program;

pub struct C11Prop;
pub static C11: C11Prop = C11Prop;

fn texts(l: &[Instruction]) -> Vec<String> {
    l.iter().map(|i| i.to_quil_or_debug().replace('\n', " ⏎ ")).collect()
}

fn sorted_qubits(p: &Program) -> Vec<String> {
    let mut v: Vec<String> = p.get_used_qubits().iter().map(|q: &Qubit| q.to_quil_or_debug()).collect();
    v.sort();
    v
}

fn build(items: &[Item]) -> Program {
    Program::from_instructions(items.iter().map(|i| i.instr.clone()).collect())
}

fn text(p: &Program) -> Result<String, crate::engine::Failure> {
    match lib(|| p.to_quil())? {
        Ok(t) => Ok(t),
        Err(e) => fail!("c11:to-quil-error", "to_quil failed: {e:?}"),
    }
}

pub fn oracle(a_items: &[Item], b_items: &[Item], out: &mut Outcome) -> Check {
    let (ma, mb) = (Model::from_items(a_items), Model::from_items(b_items));
    let merged = ma.concat(&mb);
    let common = ma.defs.iter().filter(|(k, key, _)| mb.defs.iter().any(|(k2, key2, _)| k == k2 && key == key2)).count();
    let only_a = ma.defs.len() - common;
    let only_b = mb.defs.len() - common;
    let changed = ma.defs.iter().any(|(k, key, v)| mb.defs.iter().any(|(k2, key2, v2)| k == k2 && key == key2 && v != v2));
    out.nontrivial = common >= 1 && (only_a >= 1 || only_b >= 1);
    if common >= 1 {
        out.class("common-key");
    }
    if changed {
        out.class("common-key-different-value");
    }
    if !ma.body.is_empty() && !mb.body.is_empty() {
        out.class("both-bodies");
    }

    let (a, b) = (lib(|| build(a_items))?, lib(|| build(b_items))?);
    let sum = lib(|| a.clone() + b.clone())?;
    let mut acc = a.clone();
    lib(|| acc += b.clone())?;

    // + and += agree
    ensure!(sum == acc, "c11:add-vs-addassign", "A + B != (A += B)");
    ensure!(lib(|| sum.to_instructions())? == lib(|| acc.to_instructions())?, "c11:add-vs-addassign:listing", "A + B and A += B list different instructions");
    ensure!(text(&sum)? == text(&acc)?, "c11:add-vs-addassign:text", "A + B and A += B print differently");

    let listing = lib(|| sum.to_instructions())?;
    // (a)
    let body: Vec<Instruction> = sum.body_instructions().cloned().collect();
    ensure!(
        body == merged.body,
        "c11:body",
        "body of A+B is {:?}, expected A's body then B's: {:?}",
        texts(&body),
        texts(&merged.body)
    );
    // (b)
    for kind in DEF_KINDS {
        let got: Vec<&Instruction> = listing.iter().filter(|i| defs::classify(i).0 == kind).collect();
        let want = merged.of_kind(kind);
        let same = got.len() == want.len() && want.iter().all(|w| got.contains(&w));
        if !same {
            // say which way it went wrong
            let a_vals = ma.of_kind(kind);
            let kept_a_value = got.iter().any(|g| a_vals.contains(g) && !want.contains(g));
            let sig = if kept_a_value { "c11:merge-kept-lhs-value" } else if got.len() < want.len() { "c11:merge-lost-definition" } else { "c11:merge-wrong" };
            fail!(
                format!("{sig}:{kind:?}"),
                "{kind:?} definitions of A+B: {:?}; expected (B wins on common keys, all others kept): {:?}",
                got.iter().map(|i| i.to_quil_or_debug()).collect::<Vec<_>>(),
                texts(&want)
            );
        }
    }
    ensure!(listing.len() == merged.defs.len() + merged.body.len(), "c11:listing-length", "A+B lists {} instructions, expected {}", listing.len(), merged.defs.len() + merged.body.len());

    // (c) "the used-qubit set is the union". Read together with C10 (the used-qubit set is the set
    // of qubits the program's instructions mention): a qubit that only a definition of A mentioned
    // which B's definition of the same key replaces is no longer mentioned by A+B, so it may be
    // absent; every other qubit of either side must be present and nothing else may be.
    let mut union: Vec<String> = sorted_qubits(&a);
    union.extend(sorted_qubits(&b));
    union.sort();
    union.dedup();
    let mentioned: Vec<String> = {
        let mut v: Vec<String> = listing.iter().flat_map(|i| i.get_qubits().into_iter().map(|q| q.to_quil_or_debug())).collect();
        v.sort();
        v.dedup();
        v
    };
    let got = sorted_qubits(&sum);
    let replaced_only: Vec<&String> = union.iter().filter(|q| !mentioned.contains(q)).collect();
    if !replaced_only.is_empty() {
        out.class("replaced-definition-owned-a-qubit");
    }
    for q in &got {
        ensure!(union.contains(q), "c11:used-qubits:extra", "A+B reports used qubit {q} that neither A nor B reports; union = {union:?}");
    }
    for q in &union {
        ensure!(
            got.contains(q) || replaced_only.contains(&q),
            "c11:used-qubits:missing",
            "used qubits of A+B = {got:?} lacks {q}, which A or B uses and A+B still mentions; union = {union:?}"
        );
    }
    // (d)
    for (name, p) in [("A", &a), ("B", &b)] {
        let right = lib(|| p.clone() + Program::new())?;
        let left = lib(|| Program::new() + p.clone())?;
        let mut in_place = p.clone();
        lib(|| in_place += Program::new())?;
        for (side, q) in [("X + empty", &right), ("empty + X", &left), ("X += empty", &in_place)] {
            ensure!(*q == *p, format!("c11:identity:eq:{side}"), "{side} != X for X = {name}");
            ensure!(
                lib(|| q.to_instructions())? == lib(|| p.to_instructions())?,
                format!("c11:identity:listing:{side}"),
                "{side} lists {:?}, X lists {:?}",
                texts(&q.to_instructions()),
                texts(&p.to_instructions())
            );
            ensure!(text(q)? == text(p)?, format!("c11:identity:text:{side}"), "{side} prints differently from X");
            ensure!(sorted_qubits(q) == sorted_qubits(p), format!("c11:identity:used-qubits:{side}"), "{side} changes the used-qubit set");
        }
    }
    Ok(())
}

impl Property for C11Prop {
    fn id(&self) -> &'static str {
        "C11"
    }
    fn rule(&self) -> &'static str {
        "random pairs (A, B) of instruction sequences of <= 10 (quick) / <= 16 (thorough) items each over the shared definition generator (8 definition kinds, keys from pools of 2-6, several values per key, 30% body instructions), B steered towards A's keys by up to 3 extra definitions of kinds A defines. Non-trivial = at least one key defined in both and at least one defined in only one; distinct by the pair's hash."
    }
    fn max_words(&self) -> usize {
        4 * (16 * 8 + 2) + 80
    }
    fn cases(&self, tier: Tier) -> u64 {
        tier.pick(50_000, 1_200_000)
    }
    fn run(&self, src: &mut Src, ctx: &Ctx, out: &mut Outcome) -> Check {
        let cfg = SeqCfg { max_len: ctx.tier.pick(10, 16), body_pct: 30 };
        let a = defs::sequence(src, &cfg);
        let mut b = defs::sequence(src, &cfg);
        // steer B towards A's keys: up to 3 extra definitions of kinds A defines (key pools are small)
        let a_defs: Vec<Kind> = a.iter().filter(|i| i.kind != Kind::Body).map(|i| i.kind).collect();
        if !a_defs.is_empty() {
            for _ in 0..src.below(4) {
                let kind = *src.pick(&a_defs);
                let at = src.below(b.len() + 1);
                b.insert(at, defs::definition(src, kind));
            }
        }
        out.set_key(&(defs::render(&a), defs::render(&b)));
        if ctx.render {
            out.render = Some(format!("A = {}   |||   B = {}", defs::render(&a), defs::render(&b)));
        }
        oracle(&a, &b, out)
    }
    fn run_text(&self, text: &str, _ctx: &Ctx, out: &mut Outcome) -> Check {
        let (ta, tb) = text.split_once("\n|||\n").unwrap_or((text, ""));
        let (a, b) = match (defs::parse_items(ta), defs::parse_items(tb)) {
            (Ok(a), Ok(b)) => (a, b),
            (Err(e), _) | (_, Err(e)) => fail!("harness:c11-text", "{e}"),
        };
        out.set_key(&(defs::render(&a), defs::render(&b)));
        oracle(&a, &b, out)
    }
    fn floors(&self) -> Vec<(&'static str, f64)> {
        vec![("common-key", 0.3), ("common-key-different-value", 0.2), ("both-bodies", 0.3), ("replaced-definition-owned-a-qubit", 0.002)]
    }
}
