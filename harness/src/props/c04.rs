//! C04 — Programs built through the API serialize to text that parses back.
//!
//! Statement: "For every well-formed program built through the public constructors without
//! placeholders, serialization succeeds and the text parses to an equivalent program. Here
//! equivalent means equal, with expressions compared by value. Serialization fails with an
//! unresolved-placeholder error exactly when a placeholder is present, and the debug serializer
//! never fails."
//!
//! Oracle:
//!  (a) no placeholder: `to_quil()` is Ok, the text parses, and the parsed program is equivalent:
//!      either `==`, or — after every expression has been replaced by its value at three fixed
//!      assignments of all variables and memory cells (`canon`) — the two listings have the same
//!      `Debug` form up to a 1e-9 relative tolerance on floating-point fields. Everything that is
//!      not an expression (names, qubits, literal kinds, indices, modifiers, strings, order) has to
//!      match exactly, because it is part of the `Debug` form.
//!  (b) with placeholders: `to_quil()` is Err(UnresolvedQubitPlaceholder | UnresolvedLabelPlaceholder);
//!      `to_quil_or_debug()` returns non-empty text; after `resolve_placeholders()` (a) holds.

use crate::engine::{lib, Check, Ctx, Outcome, Property, Src, Tier};
use crate::gen::instr::{self, Cfg};
use crate::{ensure, fail};
use num_complex::Complex64;
use quil_rs::expression::Expression;
use quil_rs::instruction::{AttributeValue, GateSpecification, Instruction, Qubit, QubitPlaceholder, Target, TargetPlaceholder};
use quil_rs::quil::{Quil, ToQuilError};
use quil_rs::Program;
use std::collections::HashMap;
use std::str::FromStr;

pub struct C04Prop;
pub static C04: C04Prop = C04Prop;

// ---------------------------------------------------------------------------------------------
// canonical form: expressions replaced by their values

fn leaves(e: &Expression, vars: &mut Vec<String>, mems: &mut Vec<(String, u64)>) {
    match e {
        Expression::Variable(v) => vars.push(v.clone()),
        Expression::Address(m) => mems.push((m.name.clone(), m.index)),
        Expression::Infix(i) => {
            leaves(&i.left, vars, mems);
            leaves(&i.right, vars, mems);
        }
        Expression::Prefix(p) => leaves(&p.expression, vars, mems),
        Expression::FunctionCall(f) => leaves(&f.expression, vars, mems),
        _ => {}
    }
}

fn name_seed(s: &str, k: usize) -> f64 {
    let h = crate::engine::hash_of(&(s, k));
    // a value in (0.3, 2.3), away from 0 and from branch cuts
    0.3 + (h % 2000) as f64 / 1000.0
}

/// The value of `e` at assignment `k`, as an expression (`Number`), or `e` itself if it cannot be evaluated.
fn value_of(e: &Expression, k: usize) -> Expression {
    let (mut vars, mut mems) = (vec![], vec![]);
    leaves(e, &mut vars, &mut mems);
    let variables: HashMap<String, Complex64> = vars.iter().map(|v| (v.clone(), Complex64::new(name_seed(v, k), 0.37 * name_seed(v, k + 7)))).collect();
    let mut memory: HashMap<&str, Vec<f64>> = HashMap::new();
    for (n, i) in &mems {
        let v = memory.entry(n.as_str()).or_default();
        while v.len() <= *i as usize {
            let j = v.len();
            v.push(name_seed(n, k + 13 * (j + 1)));
        }
    }
    // Where a sqrt / power argument sits on the negative real axis the value depends on the sign of
    // a zero imaginary part, which `-x` vs `Number(-x)` flips: that is C03's known finding
    // (c03-negative-literal-branch-cut), not a second one. Such expressions are not compared here.
    let env = crate::model::eval::Env {
        vars: variables.clone(),
        mem: memory.iter().map(|(k, v)| (k.to_string(), v.clone())).collect(),
    };
    let mut diag = crate::model::eval::Diag::default();
    let _ = crate::model::eval::eval(e, &env, &mut None, &mut diag);
    if diag.branch_cut || diag.zero_base || diag.negative_base_integer_power || diag.unstable || diag.zero_pow_zero {
        ON_BRANCH_CUT.with(|c| c.set(c.get() + 1));
        return Expression::Variable("<not-compared: on a branch cut>".into());
    }
    match e.evaluate(&variables, &memory) {
        Ok(v) if v.re.is_finite() && v.im.is_finite() => Expression::Number(v),
        Ok(_) => Expression::Variable("<not-compared: non-finite>".into()),
        Err(_) => e.clone(),
    }
}

thread_local! {
    static ON_BRANCH_CUT: std::cell::Cell<u64> = const { std::cell::Cell::new(0) };
}

fn canon(i: &Instruction, k: usize) -> Instruction {
    let x = |e: &Expression| value_of(e, k);
    let mut i = i.clone();
    match &mut i {
        Instruction::Gate(g) => g.parameters.iter_mut().for_each(|p| *p = x(p)),
        Instruction::CalibrationDefinition(c) => {
            c.identifier.parameters.iter_mut().for_each(|p| *p = x(p));
            c.instructions = c.instructions.iter().map(|b| canon(b, k)).collect();
        }
        Instruction::MeasureCalibrationDefinition(c) => c.instructions = c.instructions.iter().map(|b| canon(b, k)).collect(),
        Instruction::CircuitDefinition(c) => c.instructions = c.instructions.iter().map(|b| canon(b, k)).collect(),
        Instruction::FrameDefinition(f) => f.attributes.values_mut().for_each(|v| {
            if let AttributeValue::Expression(e) = v {
                *e = x(e)
            }
        }),
        Instruction::WaveformDefinition(w) => w.definition.matrix.iter_mut().for_each(|p| *p = x(p)),
        Instruction::GateDefinition(g) => match &mut g.specification {
            GateSpecification::Matrix(m) => m.iter_mut().for_each(|r| r.iter_mut().for_each(|p| *p = x(p))),
            GateSpecification::PauliSum(s) => s.terms.iter_mut().for_each(|t| t.expression = x(&t.expression)),
            GateSpecification::Sequence(_) => {
                if let Some(standin) = sequence_standin(g, k) {
                    return standin;
                }
            }
            GateSpecification::Permutation(_) => {}
        },
        Instruction::Pulse(p) => p.waveform.parameters.values_mut().for_each(|p| *p = x(p)),
        Instruction::Capture(c) => c.waveform.parameters.values_mut().for_each(|p| *p = x(p)),
        Instruction::RawCapture(c) => c.duration = x(&c.duration),
        Instruction::Delay(d) => d.duration = x(&d.duration),
        Instruction::SetFrequency(s) => s.frequency = x(&s.frequency),
        Instruction::SetPhase(s) => s.phase = x(&s.phase),
        Instruction::SetScale(s) => s.scale = x(&s.scale),
        Instruction::ShiftFrequency(s) => s.frequency = x(&s.frequency),
        Instruction::ShiftPhase(s) => s.phase = x(&s.phase),
        _ => {}
    }
    i
}

/// The elements of a sequence definition are private to the crate. To compare them by value they
/// are obtained through the public API: the definition is expanded on an invocation with symbolic
/// parameters and distinct fixed qubits, and the resulting gates (canonicalised) are returned inside
/// a stand-in instruction that also carries the definition's name and parameter list.
fn sequence_standin(def: &quil_rs::instruction::GateDefinition, k: usize) -> Option<Instruction> {
    use quil_rs::instruction::{CircuitDefinition, Gate};
    for nq in 1..=3u64 {
        let invocation = Gate::new(
            &def.name,
            (0..def.parameters.len()).map(|j| Expression::Variable(format!("__actual{j}"))).collect(),
            (0..nq).map(|j| Qubit::Fixed(1000 + j)).collect(),
            vec![],
        )
        .ok()?;
        // under a name of its own, so that an element invoking the definition's real name (a
        // self-reference, which is only an error when expanded) is left as it is
        let mut renamed = def.clone();
        renamed.name = "zz_standin_for_comparison".to_string();
        let invocation = Gate { name: renamed.name.clone(), ..invocation };
        let program = Program::from_instructions(vec![Instruction::GateDefinition(renamed.clone()), Instruction::Gate(invocation)]);
        let name = renamed.name.clone();
        if let Ok(expanded) = program.expand_defgate_sequences(move |n| n == name) {
            let body: Vec<Instruction> = expanded.body_instructions().map(|i| canon(i, k)).collect();
            return Some(Instruction::CircuitDefinition(CircuitDefinition {
                name: format!("<sequence {}>", def.name),
                parameters: def.parameters.clone(),
                qubit_variables: vec![format!("{nq} formal qubits")],
                instructions: body,
            }));
        }
    }
    None
}

/// Compare two `Debug` renderings: identical except that maximal floating-point tokens (containing
/// '.', or an exponent, or inf/NaN) may differ by 1e-9 relative.
pub fn debug_equal_up_to_floats(a: &str, b: &str) -> bool {
    fn tokens(s: &str) -> Vec<(bool, &str)> {
        // split into number-like runs and the rest
        let bytes = s.as_bytes();
        let mut out = vec![];
        let mut i = 0;
        while i < bytes.len() {
            let c = bytes[i] as char;
            let starts_number = c.is_ascii_digit() || (c == '-' && i + 1 < bytes.len() && (bytes[i + 1] as char).is_ascii_digit());
            let prev_is_word = i > 0 && ((bytes[i - 1] as char).is_ascii_alphanumeric() || bytes[i - 1] == b'_');
            if starts_number && !prev_is_word {
                let start = i;
                i += 1;
                while i < bytes.len() {
                    let d = bytes[i] as char;
                    let exp_sign = (d == '-' || d == '+') && matches!(bytes[i - 1] as char, 'e' | 'E');
                    if d.is_ascii_digit() || d == '.' || d == 'e' || d == 'E' || exp_sign {
                        i += 1;
                    } else {
                        break;
                    }
                }
                out.push((true, &s[start..i]));
            } else {
                let start = i;
                i += 1;
                while i < bytes.len() {
                    let d = bytes[i] as char;
                    let starts = d.is_ascii_digit() || (d == '-' && i + 1 < bytes.len() && (bytes[i + 1] as char).is_ascii_digit());
                    let pw = (bytes[i - 1] as char).is_ascii_alphanumeric() || bytes[i - 1] == b'_';
                    if starts && !pw {
                        break;
                    }
                    i += 1;
                }
                out.push((false, &s[start..i]));
            }
        }
        out
    }
    let (ta, tb) = (tokens(a), tokens(b));
    if ta.len() != tb.len() {
        return false;
    }
    ta.iter().zip(tb.iter()).all(|((na, xa), (nb, xb))| {
        if xa == xb {
            return true;
        }
        if !(*na && *nb) {
            return false;
        }
        let is_float = |t: &str| t.contains('.') || t.contains('e') || t.contains('E');
        if !is_float(xa) || !is_float(xb) {
            return false;
        }
        match (xa.parse::<f64>(), xb.parse::<f64>()) {
            (Ok(x), Ok(y)) => (x - y).abs() <= 1e-9 * x.abs().max(y.abs()).max(1e-300),
            _ => false,
        }
    })
}

/// Calibration definitions are keyed by an identifier that holds expressions, and the text of an
/// expression does not determine its structure (`+x` prints as `x`, `Number(-3)` and `-(3)` both as
/// `-3`, a two-part complex literal like the sum it looks like). Two definitions whose identifiers
/// differ only in that way are two entries of a built program but one signature in its text, where
/// the later one replaces the earlier in place — the same program once expressions are compared by
/// value, which is what the statement asks for. This folds such pairs on the built side (only when
/// the identifiers read back from their text as the same identifier *and* are equal by value;
/// anything else is left to differ).
pub fn fold_value_equal_calibrations(a: &[Instruction]) -> (Vec<Instruction>, usize) {
    // the identifier as the parser reads its text back (None if it does not print or parse)
    fn reread(id: &quil_rs::instruction::CalibrationIdentifier) -> Option<quil_rs::instruction::CalibrationIdentifier> {
        let def = quil_rs::instruction::CalibrationDefinition { identifier: id.clone(), instructions: vec![Instruction::Nop()] };
        let text = Instruction::CalibrationDefinition(def).to_quil().ok()?;
        match Program::from_str(&text).ok()?.to_instructions().as_slice() {
            [Instruction::CalibrationDefinition(d)] => Some(d.identifier.clone()),
            _ => None,
        }
    }
    let mut out: Vec<Instruction> = vec![];
    let mut folded = 0;
    for i in a {
        if let Instruction::CalibrationDefinition(c) = i {
            let same_key = |e: &Instruction| match e {
                Instruction::CalibrationDefinition(d) => {
                    d.identifier != c.identifier
                        && reread(&d.identifier).is_some()
                        && reread(&d.identifier) == reread(&c.identifier)
                        && (0..3).all(|k| {
                            let strip = |x: &quil_rs::instruction::CalibrationDefinition| {
                                Instruction::CalibrationDefinition(quil_rs::instruction::CalibrationDefinition { identifier: x.identifier.clone(), instructions: vec![] })
                            };
                            canon(&strip(d), k) == canon(&strip(c), k)
                        })
                }
                _ => false,
            };
            if let Some(pos) = out.iter().position(same_key) {
                out[pos] = i.clone();
                folded += 1;
                continue;
            }
        }
        out.push(i.clone());
    }
    (out, folded)
}

pub fn equivalent(a: &[Instruction], b: &[Instruction]) -> Result<(), String> {
    if a == b {
        return Ok(());
    }
    let (folded, n) = fold_value_equal_calibrations(a);
    let a: &[Instruction] = if n > 0 { &folded } else { a };
    if a.len() != b.len() {
        return Err(format!("{} instructions became {}", a.len(), b.len()));
    }
    for (k, (x, y)) in a.iter().zip(b.iter()).enumerate() {
        if x == y {
            continue;
        }
        for assignment in 0..3 {
            let (cx, cy) = (canon(x, assignment), canon(y, assignment));
            if cx == cy {
                continue;
            }
            let (dx, dy) = (format!("{cx:?}"), format!("{cy:?}"));
            if !debug_equal_up_to_floats(&dx, &dy) {
                return Err(format!("instruction {k} differs (assignment {assignment}):\n   built:  {x:?}\n   parsed: {y:?}"));
            }
        }
    }
    Ok(())
}

fn has_placeholder(i: &Instruction) -> (bool, bool) {
    let q = i.get_qubits().iter().any(|q| matches!(q, Qubit::Placeholder(_)));
    let t = match i {
        Instruction::Label(l) => matches!(l.target, Target::Placeholder(_)),
        Instruction::Jump(j) => matches!(j.target, Target::Placeholder(_)),
        Instruction::JumpWhen(j) => matches!(j.target, Target::Placeholder(_)),
        Instruction::JumpUnless(j) => matches!(j.target, Target::Placeholder(_)),
        _ => false,
    };
    (q, t)
}

fn kind_sig(list: &[Instruction], err: &str) -> String {
    // name the first instruction kind whose own text does not survive, to key findings by root cause
    for i in list {
        if let Ok(t) = i.to_quil() {
            match Program::from_str(&t) {
                Ok(p) => {
                    if equivalent(std::slice::from_ref(i), &p.to_instructions()).is_err() {
                        return format!("{}:{}", instr::kind(i), detail(i));
                    }
                }
                Err(_) => return format!("{}:{}", instr::kind(i), detail(i)),
            }
        }
    }
    let _ = err;
    "whole-program".into()
}

/// A coarse description of what is special about the instruction (for failure signatures).
fn detail(i: &Instruction) -> &'static str {
    use quil_rs::instruction::{ArithmeticOperand, ComparisonOperand, UnresolvedCallArgument};
    let real_operand = |o: &ArithmeticOperand| matches!(o, ArithmeticOperand::LiteralReal(_));
    match i {
        Instruction::Move(m) if real_operand(&m.source) => "literal-real",
        Instruction::Arithmetic(a) if real_operand(&a.source) => "literal-real",
        Instruction::Store(s) if real_operand(&s.source) => "literal-real",
        Instruction::Comparison(c) if matches!(c.rhs, ComparisonOperand::LiteralReal(_)) => "literal-real",
        Instruction::Call(c) if c.arguments.iter().any(|a| matches!(a, UnresolvedCallArgument::Immediate(v) if v.im != 0.0 || v.re < 0.0)) => "negative-or-complex-immediate",
        Instruction::Call(_) => "call",
        Instruction::Delay(d) if d.frame_names.is_empty() => "delay-without-frame-names",
        Instruction::Delay(_) => "delay-with-frame-names",
        Instruction::CalibrationDefinition(c) if !c.identifier.modifiers.is_empty() => "modifiers",
        Instruction::Gate(g) if g.qubits.iter().any(|q| matches!(q, Qubit::Fixed(n) if *n > u32::MAX as u64)) => "huge-qubit",
        _ => "other",
    }
}

pub fn roundtrip(list: &[Instruction], out: &mut Outcome) -> Check {
    let program = lib(|| Program::from_instructions(list.to_vec()))?;
    let listing = lib(|| program.to_instructions())?;
    let text = match lib(|| program.to_quil())? {
        Ok(t) => t,
        Err(e) => fail!("c04:to-quil-error", "a placeholder-free program does not serialize: {e:?}; program {listing:?}"),
    };
    let parsed = match lib(|| Program::from_str(&text))? {
        Ok(p) => p,
        Err(e) => {
            let sig = kind_sig(&listing, "parse");
            fail!(format!("c04:reparse-error:{sig}"), "serialized text does not parse: {e}\n--- text:\n{text}\n--- built from: {listing:?}")
        }
    };
    let parsed_listing = lib(|| parsed.to_instructions())?;
    if let Err(why) = equivalent(&listing, &parsed_listing) {
        let sig = kind_sig(&listing, "differs");
        fail!(format!("c04:not-equivalent:{sig}"), "the text parses to a different program: {why}\n--- text:\n{text}");
    }
    let _ = out;
    Ok(())
}

impl Property for C04Prop {
    fn id(&self) -> &'static str {
        "C04"
    }
    fn rule(&self) -> &'static str {
        "random programs of <= 6 (quick) / <= 10 (thorough) instructions built through the public constructors and fields: every instruction kind (all classical operand forms incl. integral / huge / tiny real literals and i64 extremes, gates with modifiers, MEASURE with name, RESET, PRAGMA, CALL with identifier / reference / real, negative and complex immediates, PULSE / CAPTURE / RAW-CAPTURE blocking or not, SET-* / SHIFT-* / SWAP-PHASES, DELAY with 0-2 frame names and arbitrary duration expressions, FENCE, control flow, NOP / HALT / WAIT) and every definition kind (DECLARE with SHARING / OFFSET, DEFFRAME with string and expression attributes, DEFWAVEFORM, DEFCAL with modifiers / parameters / variable and fixed qubits, DEFCAL MEASURE named or not, DEFGATE matrix / permutation / Pauli sum / sequence, DEFCIRCUIT, INCLUDE, PRAGMA EXTERN); expressions of depth <= 3/4 over the full finite literal zoo; one third of the cases carry 1-3 qubit / label placeholders. Non-trivial = the program has an instruction with an expression, a string, a literal operand or a nested block; distinct by the listing's Debug hash."
    }
    fn max_words(&self) -> usize {
        3000
    }
    fn cases(&self, tier: Tier) -> u64 {
        tier.pick(40_000, 600_000)
    }
    fn run(&self, src: &mut Src, ctx: &Ctx, out: &mut Outcome) -> Check {
        let with_placeholders = src.chance(1, 3);
        let cfg = Cfg {
            expr_depth: ctx.tier.pick(3, 4),
            placeholder_pct: if with_placeholders { 25 } else { 0 },
            qph: (0..2).map(|_| QubitPlaceholder::default()).collect(),
            tph: vec![TargetPlaceholder::new("loop".into()), TargetPlaceholder::new("end".into())],
            wide_numbers: true,
            signed_call_immediates: !ctx.is_active("c04-call-signed-or-complex-immediate"),
        };
        if ctx.is_active("c04-call-signed-or-complex-immediate") {
            out.class("excluded:signed-call-immediates");
        }
        let list = instr::program(src, &cfg, ctx.tier.pick(6, 10));
        let debug = format!("{list:?}");
        out.set_key(&debug);
        for i in &list {
            out.class(instr::kind(i));
        }
        out.nontrivial = list.iter().any(|i| {
            !matches!(i, Instruction::Nop() | Instruction::Halt() | Instruction::Wait() | Instruction::Fence(_) | Instruction::Reset(_) | Instruction::Label(_) | Instruction::Jump(_))
        });
        if ctx.render {
            out.render = Some(list.iter().map(|i| i.to_quil_or_debug().replace('\n', " ⏎ ")).collect::<Vec<_>>().join(" ;; "));
        }
        let flags: Vec<(bool, bool)> = list.iter().map(has_placeholder).collect();
        let any_q = flags.iter().any(|f| f.0);
        let any_t = flags.iter().any(|f| f.1);
        if !(any_q || any_t) {
            out.class("placeholder-free");
            return roundtrip(&list, out);
        }
        out.class("with-placeholders");
        // (b)
        let mut program = lib(|| Program::from_instructions(list.clone()))?;
        match lib(|| program.to_quil())? {
            Err(ToQuilError::UnresolvedQubitPlaceholder) | Err(ToQuilError::UnresolvedLabelPlaceholder) => {}
            Err(other) => fail!("c04:placeholder:wrong-error", "to_quil failed with {other:?} instead of an unresolved-placeholder error"),
            Ok(t) => fail!("c04:placeholder:serialized", "a program with a placeholder serialized without error: {t}"),
        }
        for (i, (q, t)) in list.iter().zip(flags.iter()) {
            let r = lib(|| i.to_quil())?;
            ensure!(r.is_err() == (*q || *t), "c04:placeholder:instruction-mismatch", "{i:?}: to_quil is_err = {} but placeholder present = {}", r.is_err(), *q || *t);
        }
        let debug_text = lib(|| program.to_quil_or_debug())?;
        ensure!(!debug_text.trim().is_empty(), "c04:debug-serializer-empty", "to_quil_or_debug returned nothing");
        for i in &list {
            ensure!(!lib(|| i.to_quil_or_debug())?.is_empty(), "c04:debug-serializer-empty", "to_quil_or_debug of {i:?} is empty");
        }
        lib(|| program.resolve_placeholders())?;
        let resolved = lib(|| program.to_instructions())?;
        // placeholders in definition bodies are not resolved by the program (C34 is about the body);
        // only continue when nothing is left
        if resolved.iter().any(|i| lib(|| i.to_quil()).map(|r| r.is_err()).unwrap_or(true)) {
            out.class("placeholder-left-in-definition");
            return Ok(());
        }
        roundtrip(&resolved, out)
    }
    /// Hand-written API-built cases, one instruction per line:
    ///  `CALL <name> <re>,<im> ...`            immediates
    ///  `MOVE-REAL <f64>` / `EQ-REAL <f64>`     literal real operands
    ///  `DELAY <q,q,..> <name|name|..> <expr>`  (use `-` for no qubits / no names)
    ///  `DEFCAL-MODIFIERS <DAGGER,CONTROLLED,..> <gate> <qubit>`
    ///  `QUIL <text>`                           anything the parser can build
    fn run_text(&self, text: &str, _ctx: &Ctx, out: &mut Outcome) -> Check {
        use quil_rs::instruction::*;
        let mut list = vec![];
        for line in text.lines().filter(|l| !l.trim().is_empty()) {
            let (cmd, rest) = line.split_once(' ').unwrap_or((line, ""));
            let i = match cmd {
                "CALL" => {
                    let mut parts = rest.split_whitespace();
                    let name = parts.next().unwrap_or("f").to_string();
                    let args = parts
                        .map(|p| {
                            let (re, im) = p.split_once(',').unwrap_or((p, "0"));
                            UnresolvedCallArgument::Immediate(Complex64::new(re.parse().unwrap_or(0.0), im.parse().unwrap_or(0.0)))
                        })
                        .collect();
                    Instruction::Call(Call::try_new(name, args).map_err(|e| crate::engine::Failure { sig: "harness:c04-text".into(), msg: format!("{e}") })?)
                }
                "MOVE-REAL" => Instruction::Move(Move { destination: MemoryReference { name: "ro".into(), index: 0 }, source: ArithmeticOperand::LiteralReal(rest.trim().parse().unwrap_or(1.0)) }),
                "EQ-REAL" => Instruction::Comparison(Comparison {
                    operator: ComparisonOperator::Equal,
                    destination: MemoryReference { name: "b".into(), index: 0 },
                    lhs: MemoryReference { name: "ro".into(), index: 0 },
                    rhs: ComparisonOperand::LiteralReal(rest.trim().parse().unwrap_or(1.0)),
                }),
                "DELAY" => {
                    let mut parts = rest.splitn(3, ' ');
                    let qs = parts.next().unwrap_or("-");
                    let names = parts.next().unwrap_or("-");
                    let e = parts.next().unwrap_or("1.0");
                    let duration = match Expression::from_str(e) {
                        Ok(e) => e,
                        Err(err) => fail!("harness:c04-text", "{e:?}: {err}"),
                    };
                    Instruction::Delay(Delay {
                        duration,
                        frame_names: if names == "-" { vec![] } else { names.split('|').map(|s| s.to_string()).collect() },
                        qubits: if qs == "-" { vec![] } else { qs.split(',').map(|q| Qubit::Fixed(q.parse().unwrap_or(0))).collect() },
                    })
                }
                "DEFCAL-MODIFIERS" => {
                    let mut parts = rest.split_whitespace();
                    let mods = parts
                        .next()
                        .unwrap_or("")
                        .split(',')
                        .filter_map(|m| match m {
                            "DAGGER" => Some(GateModifier::Dagger),
                            "CONTROLLED" => Some(GateModifier::Controlled),
                            "FORKED" => Some(GateModifier::Forked),
                            _ => None,
                        })
                        .collect();
                    let gate = parts.next().unwrap_or("X").to_string();
                    let q: u64 = parts.next().and_then(|q| q.parse().ok()).unwrap_or(0);
                    Instruction::CalibrationDefinition(CalibrationDefinition {
                        identifier: CalibrationIdentifier::new(gate, mods, vec![], vec![Qubit::Fixed(q)]).map_err(|e| crate::engine::Failure { sig: "harness:c04-text".into(), msg: format!("{e}") })?,
                        instructions: vec![Instruction::Nop()],
                    })
                }
                "QUIL" => match Instruction::from_str(&rest.replace("\\n", "\n")) {
                    Ok(i) => i,
                    Err(e) => fail!("harness:c04-text", "{rest:?}: {e}"),
                },
                other => fail!("harness:c04-text", "unknown builder {other:?}"),
            };
            list.push(i);
        }
        out.set_key(&format!("{list:?}"));
        roundtrip(&list, out)
    }
    fn floors(&self) -> Vec<(&'static str, f64)> {
        vec![("placeholder-free", 0.4), ("with-placeholders", 0.1), ("Delay", 0.05), ("Call", 0.03), ("CalibrationDefinition", 0.05), ("GateDefinition", 0.05), ("FrameDefinition", 0.03)]
    }
}
