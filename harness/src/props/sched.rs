//! Shared helpers for the dependency-graph properties (C22–C25).

use quil_rs::instruction::{DefaultHandler, ExternSignatureMap, FrameIdentifier, Instruction, InstructionHandler, InstructionRole};
use quil_rs::program::scheduling::{DependencyGraph, ExecutionDependency, ScheduledBasicBlock, ScheduledGraphNode};
use quil_rs::quil::Quil;
use quil_rs::Program;
use std::collections::{BTreeSet, HashMap, HashSet};

/// Position of a node: block start, then instructions in order, then block end.
pub fn pos(node: ScheduledGraphNode, n: usize) -> i64 {
    match node {
        ScheduledGraphNode::BlockStart => -1,
        ScheduledGraphNode::InstructionIndex(i) => i as i64,
        ScheduledGraphNode::BlockEnd => n as i64,
    }
}

pub struct Edges {
    pub all: Vec<(ScheduledGraphNode, ScheduledGraphNode, HashSet<ExecutionDependency>)>,
}

impl Edges {
    pub fn of(graph: &DependencyGraph) -> Edges {
        Edges { all: graph.all_edges().map(|(a, b, w)| (a, b, w.clone())).collect() }
    }
    /// Nodes reachable from `from` along edges accepted by `keep` (excluding `from` itself unless on a cycle).
    pub fn reachable(&self, from: ScheduledGraphNode, keep: &dyn Fn(&HashSet<ExecutionDependency>) -> bool) -> HashSet<ScheduledGraphNode> {
        let mut adj: HashMap<ScheduledGraphNode, Vec<ScheduledGraphNode>> = HashMap::new();
        for (a, b, w) in &self.all {
            if keep(w) {
                adj.entry(*a).or_default().push(*b);
            }
        }
        let mut seen = HashSet::new();
        let mut stack = vec![from];
        while let Some(x) = stack.pop() {
            for y in adj.get(&x).into_iter().flatten() {
                if seen.insert(*y) {
                    stack.push(*y);
                }
            }
        }
        seen
    }
}

/// (used, blocked) as indices into a canonical sorted list of frame texts.
#[derive(Clone, Debug, Default)]
pub struct Frames {
    pub used: BTreeSet<String>,
    pub blocked: BTreeSet<String>,
}

pub fn frame_text(f: &FrameIdentifier) -> String {
    f.to_quil_or_debug()
}

pub fn matched(program: &Program, i: &Instruction) -> Option<Frames> {
    DefaultHandler.matching_frames(program, i).map(|m| Frames {
        used: m.used.iter().map(|f| frame_text(f)).collect(),
        blocked: m.blocked.iter().map(|f| frame_text(f)).collect(),
    })
}

pub fn conflict(a: &Frames, b: &Frames) -> bool {
    a.used.iter().any(|f| b.used.contains(f) || b.blocked.contains(f)) || b.used.iter().any(|f| a.blocked.contains(f))
}

/// The instructions of a block as graph nodes: ordinary instructions, then the terminator (if it
/// is an instruction) as BlockEnd.
pub fn block_nodes<'a>(block: &'a ScheduledBasicBlock<'a>) -> Vec<(ScheduledGraphNode, Instruction)> {
    let mut v: Vec<(ScheduledGraphNode, Instruction)> =
        block.instructions().iter().enumerate().map(|(i, x)| (ScheduledGraphNode::InstructionIndex(i), (*x).clone())).collect();
    if let Some(t) = block.terminator().clone().into_instruction() {
        v.push((ScheduledGraphNode::BlockEnd, t));
    }
    v
}

pub fn role(i: &Instruction) -> InstructionRole {
    DefaultHandler.role(i)
}

pub fn is_scheduled(i: &Instruction) -> bool {
    DefaultHandler.is_scheduled(i)
}

pub struct Mem {
    pub reads: BTreeSet<String>,
    pub writes: BTreeSet<String>,
    pub captures: BTreeSet<String>,
}

pub fn mem_accesses(map: &ExternSignatureMap, i: &Instruction) -> Option<Mem> {
    DefaultHandler.memory_accesses(map, i).ok().map(|m| Mem {
        reads: m.reads.into_iter().collect(),
        writes: m.writes.into_iter().collect(),
        captures: m.captures.into_iter().collect(),
    })
}

/// The accesses the instruction's semantics give (the reference table of C27), so that C23 judges
/// the graph against what the instructions do rather than against the handler's own report; CALL
/// (whose accesses depend on a signature) falls back to the handler.
pub fn mem_accesses_by_semantics(map: &ExternSignatureMap, i: &Instruction) -> Option<Mem> {
    match crate::model::mem::accesses(i, None) {
        Some(a) => Some(Mem { reads: a.reads, writes: a.writes, captures: a.captures }),
        None => mem_accesses(map, i),
    }
}

pub fn texts(b: &[Instruction]) -> String {
    b.iter().map(|i| i.to_quil_or_debug()).collect::<Vec<_>>().join("; ")
}
