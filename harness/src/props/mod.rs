//! One module per property.

use crate::engine::Property;

pub mod c03;
pub mod c01;
pub mod c02;
pub mod c04;
pub mod c05;
pub mod c06;
pub mod c07;
pub mod c08;
pub mod c09;
pub mod c10;
pub mod c11;
pub mod c12;
pub mod c13;
pub mod c14;
pub mod c15;
pub mod c16;
pub mod c17;
pub mod c18;
pub mod c19;
pub mod c22;
pub mod c23;
pub mod c24;
pub mod c25;
pub mod c26;
pub mod c27;
pub mod c28;
pub mod c29;
pub mod c30;
pub mod c31;
pub mod c32;
pub mod c33;
pub mod c34;
pub mod c35;
pub mod queue;
pub mod sched;
pub mod seqx;

pub fn all() -> Vec<&'static dyn Property> {
    vec![&c03::C03, &c01::C01, &c02::C02, &c04::C04, &c05::C05, &c06::C06, &c07::C07, &c08::C08, &c09::C09, &c10::C10, &c11::C11, &c12::C12, &c13::C13, &c14::C14, &c15::C15, &c16::C16, &c17::C17, &c18::C18, &c19::C19, &seqx::C20, &seqx::C21, &c22::C22, &c23::C23, &c24::C24, &c25::C25, &c26::C26, &c27::C27, &c28::C28, &c29::C29, &c30::C30, &c31::C31, &c32::C32, &c33::C33, &c34::C34, &c35::C35]
}

pub fn find(id: &str) -> Option<&'static dyn Property> {
    all().into_iter().find(|p| p.id() == id)
}
