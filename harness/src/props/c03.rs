//! C03 — Serialized expressions denote the same value when parsed back.
//!
//! Statement: "For every expression with finite numeric literals, its Quil text parses
//! successfully. The parsed expression evaluates to the same complex value as the original under
//! every assignment of variables and memory. This includes complex and negative literals, nested
//! negation, exponentiation and function calls."
//!
//! Oracle: inverse. `s = e.to_quil()` must be Ok, `Expression::from_str(s)` must be Ok(e2), and
//! at three assignments `e.evaluate == e2.evaluate` (library evaluator on both sides; relative
//! 1e-12; both non-finite counts as equal). Points where the reference evaluator sees a sqrt /
//! non-integer power argument on the negative real axis are compared too; a mismatch there gets
//! its own signature (`c03:branch-cut-sign`, see KNOWN_FINDINGS.txt) because its root cause — a
//! negative literal re-parses as the negation of a positive one and thereby acquires a negative
//! zero imaginary part — is distinct from printing/grouping defects.

use crate::engine::{lib, Check, Ctx, Outcome, Property, Src, Tier};
use crate::gen::expr::{self as gx, ExprCfg, Literals};
use crate::gen::ident;
use crate::model::eval::{self, Env};
use crate::{ensure, fail};
use num_complex::Complex64;
use quil_rs::expression::{Expression, InfixOperator};
use quil_rs::quil::Quil;
use std::collections::HashMap;
use std::str::FromStr;

pub struct C03Prop;
pub static C03: C03Prop = C03Prop;

fn env_for(vars: &[String], regions: &[(String, u64)], k: usize) -> Env {
    let base: [[f64; 4]; 3] = [[1.37, 0.41, 0.73, 1.91], [-0.66, 1.52, -1.71, 0.58], [2.0, 0.0, 3.0, 1.0]];
    let b = base[k];
    let mut env = Env::default();
    for (i, v) in vars.iter().enumerate() {
        env.vars.insert(v.clone(), Complex64::new(b[0] + 0.31 * i as f64, b[1] - 0.17 * i as f64));
    }
    for (i, (r, n)) in regions.iter().enumerate() {
        env.mem.insert(r.clone(), (0..*n).map(|j| b[2] + 0.43 * i as f64 + b[3] * j as f64).collect());
    }
    env
}

pub fn oracle(e: &Expression, vars: &[String], regions: &[(String, u64)], out: &mut Outcome) -> Check {
    let text = match lib(|| e.to_quil())? {
        Ok(t) => t,
        Err(err) => fail!("c03:to-quil-error", "to_quil failed ({err:?}) for {e:?}"),
    };
    let parsed = match lib(|| Expression::from_str(&text))? {
        Ok(p) => p,
        Err(err) => fail!(format!("c03:reparse-error:{}", shape(e)), "text {text:?} of {e:?} does not parse: {err}"),
    };
    let mut compared = 0;
    for k in 0..3 {
        let env = env_for(vars, regions, k);
        let mut diag = eval::Diag::default();
        let reference = eval::eval(e, &env, &mut None, &mut diag);
        ensure!(reference.is_some(), "harness:c03-incomplete", "assignment incomplete");
        let on_cut = diag.branch_cut || diag.zero_base || diag.unstable;
        if on_cut {
            out.class("point-on-branch-cut");
        }
        let lv: HashMap<&str, Complex64> = env.vars.iter().map(|(k, v)| (k.as_str(), *v)).collect();
        let lm: HashMap<&str, Vec<f64>> = env.mem.iter().map(|(k, v)| (k.as_str(), v.clone())).collect();
        let a = lib(|| e.evaluate(&lv, &lm))?;
        let b = lib(|| parsed.evaluate(&lv, &lm))?;
        match (a, b) {
            (Ok(a), Ok(b)) => {
                let same = if !eval::finite(a) || !eval::finite(b) { !eval::finite(a) && !eval::finite(b) } else { eval::close(a, b, 1e-12) };
                // an integer power of a negative real base is continuous; only the polar formula's
                // rounding noise depends on the sign of the zero imaginary part
                let noise_only = diag.negative_base_integer_power && eval::finite(a) && eval::finite(b) && eval::close(a, b, 1e-9);
                if !same && !noise_only {
                    if on_cut || diag.negative_base_integer_power {
                        // the two sides sit on opposite sides of a branch cut: a negative literal is
                        // written as `-x`, which re-parses as the negation of +x and so carries a
                        // negative-zero imaginary part
                        fail!(
                            "c03:branch-cut-sign",
                            "{e:?} prints as {text:?} which parses to {parsed:?}; at assignment #{k} the values lie on opposite sides of a branch cut: {a} vs {b}"
                        );
                    }
                    fail!(
                        format!("c03:value-changed:{}", shape(e)),
                        "{e:?} prints as {text:?} which parses to {parsed:?}; at assignment #{k}: {a} vs {b}"
                    );
                }
                compared += 1;
            }
            (a, b) => fail!("c03:evaluate-mismatch", "{text:?}: original evaluates to {a:?}, parsed to {b:?}"),
        }
    }
    if compared == 0 {
        out.skip = Some("no-comparable-point");
    }
    Ok(())
}

/// Coarse shape used in failure signatures so that different printing defects get different keys.
fn shape(e: &Expression) -> &'static str {
    let complex_operand = |x: &Expression| matches!(x, Expression::Number(n) if n.re != 0.0 && n.im != 0.0);
    let negative_operand = |x: &Expression| matches!(x, Expression::Number(n) if n.re < 0.0 || (n.re == 0.0 && n.im < 0.0));
    let neg_zero = |x: &Expression| matches!(x, Expression::Number(n) if (n.re == 0.0 && n.re.is_sign_negative()) || (n.im == 0.0 && n.im.is_sign_negative()));
    if gx::any_node(e, &|n| matches!(n, Expression::Prefix(p) if matches!(&*p.expression, Expression::Prefix(_)))) {
        "prefix-of-prefix"
    } else if gx::any_node(e, &|n| matches!(n, Expression::Prefix(p) if matches!(&*p.expression, Expression::Number(_)))) {
        "prefix-of-number"
    } else if gx::any_node(e, &|n| match n {
        Expression::Infix(i) => complex_operand(&i.left) || complex_operand(&i.right),
        Expression::Prefix(p) => complex_operand(&p.expression),
        _ => false,
    }) {
        "complex-literal-operand"
    } else if gx::any_node(e, &|n| match n {
        Expression::Infix(i) => negative_operand(&i.left) || negative_operand(&i.right),
        _ => false,
    }) {
        "negative-literal-operand"
    } else if gx::any_node(e, &neg_zero) {
        "negative-zero"
    } else {
        "other"
    }
}

impl Property for C03Prop {
    fn id(&self) -> &'static str {
        "C03"
    }
    fn rule(&self) -> &'static str {
        "random expression trees of depth <= 5 (quick) / <= 7 (thorough) over finite literals (0, small integers, +-2^31, +-2^53+-1, 1-17 significant digits times 10^-20..10^20, moderate reals, negative zero, dyadics; real, pure imaginary and complex), pi, 3 random-identifier variables, 2 random-identifier regions, the 5 functions, prefix +/-, the 5 infix operators, 15% subtree reuse. Non-trivial = depth >= 2 and contains a negative or complex literal, a prefix, ^ or a function; distinct by structural hash."
    }
    fn assumptions(&self) -> Vec<&'static str> {
        vec!["value equality sampled at 3 assignments; points where a sqrt/non-integer power argument lies on the negative real axis are skipped (signed-zero only)"]
    }
    fn max_words(&self) -> usize {
        900
    }
    fn cases(&self, tier: Tier) -> u64 {
        tier.pick(200_000, 4_000_000)
    }
    fn run(&self, src: &mut Src, ctx: &Ctx, out: &mut Outcome) -> Check {
        let vars: Vec<String> = {
            let mut v: Vec<String> = (0..3).map(|_| ident::ident(src, 8)).collect();
            v.dedup();
            v
        };
        let regions: Vec<(String, u64)> = {
            let a = ident::ident(src, 8);
            let mut b = ident::ident(src, 8);
            if b == a {
                b.push('_');
            }
            vec![(a, 3), (b, 2)]
        };
        let cfg = ExprCfg {
            max_depth: ctx.tier.pick(5, 7),
            vars: &vars,
            regions: &regions,
            literals: Literals::Wide,
            share_pct: 15,
            prefix_plus: true,
            allow_pi: true,
            allow_variables: true,
            complex_numbers: true,
        };
        let e = gx::expr(src, &cfg);
        out.key = gx::structural_hash(&e);
        let interesting = gx::any_node(&e, &|n| match n {
            Expression::Number(c) => c.re < 0.0 || c.im != 0.0,
            Expression::Prefix(_) | Expression::FunctionCall(_) => true,
            Expression::Infix(i) => i.operator == InfixOperator::Caret,
            _ => false,
        });
        out.nontrivial = gx::depth(&e) >= 2 && interesting;
        out.class(shape(&e));
        if ctx.render {
            out.render = Some(format!("{}   [{:?}]", e.to_quil_or_debug(), e));
        }
        oracle(&e, &vars, &regions, out)
    }
    fn floors(&self) -> Vec<(&'static str, f64)> {
        vec![("prefix-of-prefix", 0.01), ("complex-literal-operand", 0.01), ("negative-literal-operand", 0.01)]
    }
}
