//! C22 — Every block's dependency graph is a well-formed DAG.
//!
//! Statement: "For every program that schedules successfully, each basic block's dependency graph
//! is acyclic, and every edge points from an earlier position to a later one (block start, then
//! instructions in order, then block end). When every RF-control instruction matches at least one
//! defined frame, every instruction node is also reachable from the block start and reaches the
//! block end."

use super::sched::{self, Edges};
use crate::engine::{lib, Check, Ctx, Outcome, Property, Src, Tier};
use crate::gen::rfprog::{self, Opts};
use crate::{ensure, fail};
use quil_rs::instruction::{DefaultHandler, InstructionRole};
use quil_rs::program::scheduling::{ScheduledGraphNode, ScheduledProgram};

pub struct C22Prop;
pub static C22: C22Prop = C22Prop;

impl Property for C22Prop {
    fn id(&self) -> &'static str {
        "C22"
    }
    fn rule(&self) -> &'static str {
        "random programs of 0..14 (quick) / 0..24 (thorough) body instructions over 4 frames on qubits {0,1} (each defined with probability 85%) plus one never-defined frame: blocking/non-blocking PULSE/CAPTURE/RAW-CAPTURE, DELAY, FENCE, SET/SHIFT, SWAP-PHASES, RESET, classical instructions over 3 regions, NOP/PRAGMA, labels/jumps/HALT; memory references inside RF expressions. Programs that fail to schedule are trivial. Non-trivial = some block has >= 3 instructions including >= 1 RF and >= 1 classical instruction; distinct by program text."
    }
    fn max_words(&self) -> usize {
        500
    }
    fn cases(&self, tier: Tier) -> u64 {
        tier.pick(60_000, 1_500_000)
    }
    fn run(&self, src: &mut Src, ctx: &Ctx, out: &mut Outcome) -> Check {
        let opts = Opts { classical: true, control_flow: true, reset: true, rf_memory: true, timed_only: false, define_pct: 85, max_len: ctx.tier.pick(14, 24) };
        let g = rfprog::generate(src, &opts);
        let text = sched::texts(&g.body);
        out.set_key(&(g.defined.len(), &text));
        if ctx.render {
            out.render = Some(format!("frames {:?} ; {text}", g.defined.iter().map(sched::frame_text).collect::<Vec<_>>()));
        }
        let scheduled = match lib(|| ScheduledProgram::from_program(&g.program, &DefaultHandler))? {
            Ok(s) => s,
            Err(_) => {
                out.class("does-not-schedule");
                return Ok(());
            }
        };
        out.class("schedules");
        for (bi, block) in scheduled.basic_blocks().iter().enumerate() {
            let graph = block.get_dependency_graph();
            let n = block.instructions().len();
            let edges = Edges::of(graph);
            ensure!(!petgraph::algo::is_cyclic_directed(graph), "c22:cycle", "block {bi} of [{text}] has a cyclic dependency graph");
            for (a, b, w) in &edges.all {
                ensure!(
                    sched::pos(*a, n) < sched::pos(*b, n),
                    "c22:edge-direction",
                    "block {bi} of [{text}]: edge {a:?} -> {b:?} ({w:?}) does not point forward"
                );
                ensure!(!w.is_empty(), "c22:empty-edge", "block {bi}: edge {a:?} -> {b:?} carries no dependency");
            }
            for i in 0..n {
                ensure!(graph.contains_node(ScheduledGraphNode::InstructionIndex(i)), "c22:missing-node", "block {bi} of [{text}]: instruction {i} is not a node");
            }
            let nodes = sched::block_nodes(block);
            let (mut rf, mut cl) = (0, 0);
            let mut all_rf_match = true;
            for (_, instr) in &nodes {
                match sched::role(instr) {
                    InstructionRole::RFControl => {
                        rf += 1;
                        let m = sched::matched(&g.program, instr).unwrap_or_default();
                        if m.used.is_empty() && m.blocked.is_empty() {
                            all_rf_match = false;
                        }
                    }
                    InstructionRole::ClassicalCompute => cl += 1,
                    _ => {}
                }
            }
            if n >= 3 && rf >= 1 && cl >= 1 {
                out.nontrivial = true;
            }
            if all_rf_match {
                out.class("all-rf-match-a-frame");
                let from_start = edges.reachable(ScheduledGraphNode::BlockStart, &|_| true);
                for i in 0..n {
                    let node = ScheduledGraphNode::InstructionIndex(i);
                    ensure!(from_start.contains(&node), "c22:unreachable-from-start", "block {bi} of [{text}]: instruction {i} is not reachable from the block start");
                    let to = edges.reachable(node, &|_| true);
                    ensure!(to.contains(&ScheduledGraphNode::BlockEnd), "c22:does-not-reach-end", "block {bi} of [{text}]: instruction {i} does not reach the block end");
                }
                ensure!(from_start.contains(&ScheduledGraphNode::BlockEnd), "c22:end-unreachable", "block {bi} of [{text}]: block end not reachable from block start");
            } else {
                out.class("some-rf-matches-no-frame");
            }
        }
        if scheduled.basic_blocks().len() >= 2 {
            out.class("multi-block");
        }
        let _ = fail_never();
        Ok(())
    }
    fn floors(&self) -> Vec<(&'static str, f64)> {
        vec![("schedules", 0.3), ("all-rf-match-a-frame", 0.15), ("multi-block", 0.05)]
    }
}

fn fail_never() -> Check {
    if false {
        fail!("unused", "unused");
    }
    Ok(())
}
