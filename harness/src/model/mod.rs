//! Reference models, written from the property text / Quil specification.

pub mod cal;
pub mod eval;
pub mod frames;
pub mod mem;
pub mod unitary;
pub mod interp;
