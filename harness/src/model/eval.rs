//! Reference evaluator for expressions, with conditioning diagnostics.
//!
//! Semantics (Quil spec §"Expressions"): numbers are complex; `pi` is π; `+ - * /` are complex
//! field operations; `a^b` is the principal complex power exp(b·ln a) with a^0 = 1; the functions
//! are sin, cos, exp, sqrt (principal) and cis(x) = cos x + i sin x; prefix `-` negates and prefix
//! `+` is the identity; a variable / memory cell evaluates to its assigned value, and evaluation
//! is incomplete when one is missing.

use num_complex::Complex64;
use quil_rs::expression::{Expression, ExpressionFunction, InfixOperator, PrefixOperator};
use std::collections::HashMap;

#[derive(Clone, Debug, Default)]
pub struct Env {
    pub vars: HashMap<String, Complex64>,
    pub mem: HashMap<String, Vec<f64>>,
}

#[derive(Default, Debug, Clone, Copy)]
pub struct Diag {
    /// a sqrt / non-integer power had its argument on (or within rounding of) the negative real axis
    pub branch_cut: bool,
    /// a power had a (near-)zero base
    pub zero_base: bool,
    /// a power 0^0 was evaluated (= 1); generic for a constant expression, a measure-zero
    /// coincidence when the exponent depends on the assignment
    pub zero_pow_zero: bool,
    /// an integer power of a base on the negative real axis: mathematically continuous, but the
    /// polar formula's rounding noise changes sign with the sign of the base's zero imaginary part
    pub negative_base_integer_power: bool,
    /// an operation was evaluated where its floating-point formula is unstable (cis with a large
    /// positive imaginary part: cos z + i sin z cancels catastrophically)
    pub unstable: bool,
    /// a proper subexpression evaluated to NaN or an infinity (the whole expression may still be
    /// finite, e.g. `(0/0)^0 = 1` or `1/(1/0) = 0`): the value then rests on IEEE conventions for
    /// absorbing non-finite operands, not on the algebra a rewrite has to respect
    pub nonfinite_intermediate: bool,
}

/// Leaf perturbation: leaf number k is scaled by 1 + delta·sign(k).
pub struct Perturb {
    pub delta: f64,
    pub pattern: u64,
    pub counter: u64,
}

impl Perturb {
    fn next(&mut self) -> f64 {
        let k = self.counter;
        self.counter += 1;
        let bit = (self.pattern.wrapping_mul(0x9E37_79B9_7F4A_7C15).rotate_left((k % 63) as u32) ^ k) & 1;
        1.0 + if bit == 0 { self.delta } else { -self.delta }
    }
}

fn near_negative_real_axis(z: Complex64) -> bool {
    z.re < 0.0 && z.im.abs() <= 1e-9 * z.re.abs()
}

fn is_integer(z: Complex64) -> bool {
    z.im == 0.0 && z.re.fract() == 0.0 && z.re.abs() < 1e6
}

pub fn pow(x: Complex64, y: Complex64, diag: &mut Diag) -> Complex64 {
    if y.re == 0.0 && y.im == 0.0 {
        if x.norm() < 1e-300 {
            diag.zero_pow_zero = true;
        }
        return Complex64::new(1.0, 0.0);
    }
    if x.norm() < 1e-300 {
        diag.zero_base = true;
        return if y.re > 0.0 { Complex64::new(0.0, 0.0) } else { Complex64::new(f64::NAN, f64::NAN) };
    }
    if near_negative_real_axis(x) {
        if is_integer(y) {
            diag.negative_base_integer_power = true;
        } else {
            diag.branch_cut = true;
        }
    }
    (y * x.ln()).exp()
}

pub fn function(f: ExpressionFunction, z: Complex64, diag: &mut Diag) -> Complex64 {
    match f {
        ExpressionFunction::Sine => z.sin(),
        ExpressionFunction::Cosine => z.cos(),
        ExpressionFunction::Exponent => z.exp(),
        ExpressionFunction::SquareRoot => {
            if near_negative_real_axis(z) {
                diag.branch_cut = true;
            }
            z.sqrt()
        }
        ExpressionFunction::Cis => {
            let v = z.cos() + Complex64::new(0.0, 1.0) * z.sin();
            let alt = (Complex64::new(0.0, 1.0) * z).exp();
            if (v - alt).norm() > 1e-11 * alt.norm() {
                diag.unstable = true;
            }
            v
        }
    }
}

/// `None` = incomplete (an unbound variable or unsupplied memory cell occurs in `e`).
pub fn eval(e: &Expression, env: &Env, perturb: &mut Option<Perturb>, diag: &mut Diag) -> Option<Complex64> {
    let value = eval_node(e, env, perturb, diag)?;
    if !finite(value) {
        // recorded at every level; the caller looks at it only when the root is finite
        diag.nonfinite_intermediate = true;
    }
    Some(value)
}

fn eval_node(e: &Expression, env: &Env, perturb: &mut Option<Perturb>, diag: &mut Diag) -> Option<Complex64> {
    let scale = |v: Complex64, p: &mut Option<Perturb>| match p {
        Some(p) => v * p.next(),
        None => v,
    };
    Some(match e {
        Expression::Number(n) => scale(*n, perturb),
        Expression::PiConstant() => scale(Complex64::new(std::f64::consts::PI, 0.0), perturb),
        Expression::Variable(v) => scale(*env.vars.get(v)?, perturb),
        Expression::Address(m) => {
            let v = *env.mem.get(&m.name)?.get(m.index as usize)?;
            scale(Complex64::new(v, 0.0), perturb)
        }
        Expression::Prefix(p) => {
            let v = eval(&p.expression, env, perturb, diag)?;
            match p.operator {
                PrefixOperator::Minus => -v,
                PrefixOperator::Plus => v,
            }
        }
        Expression::FunctionCall(f) => {
            let v = eval(&f.expression, env, perturb, diag)?;
            function(f.function, v, diag)
        }
        Expression::Infix(i) => {
            // evaluate both sides even if one is incomplete? No: incompleteness is a property of
            // the whole tree, so order does not matter for the Option.
            let l = eval(&i.left, env, perturb, diag);
            let r = eval(&i.right, env, perturb, diag);
            let (l, r) = (l?, r?);
            match i.operator {
                InfixOperator::Plus => l + r,
                InfixOperator::Minus => l - r,
                InfixOperator::Star => l * r,
                InfixOperator::Slash => l / r,
                InfixOperator::Caret => pow(l, r, diag),
            }
        }
    })
}

/// Value of a closed expression (no variables, no memory references), `None` otherwise. Children
/// of an expression are hash-consed in quil-rs, so an expression built by repeated substitution
/// (`%t*%t` with `%t` replaced by the previous level) is a small graph with an enormous nominal
/// size; this evaluator visits every distinct node once.
pub fn eval_closed(e: &Expression) -> Option<Complex64> {
    fn go(e: &Expression, memo: &mut std::collections::HashMap<*const Expression, Option<Complex64>>, diag: &mut Diag) -> Option<Complex64> {
        let mut child = |c: &Expression, memo: &mut std::collections::HashMap<*const Expression, Option<Complex64>>, diag: &mut Diag| {
            let key = c as *const Expression;
            if let Some(v) = memo.get(&key) {
                return *v;
            }
            let v = go(c, memo, diag);
            memo.insert(key, v);
            v
        };
        Some(match e {
            Expression::Number(n) => *n,
            Expression::PiConstant() => Complex64::new(std::f64::consts::PI, 0.0),
            Expression::Variable(_) | Expression::Address(_) => return None,
            Expression::Prefix(p) => {
                let v = child(&p.expression, memo, diag)?;
                match p.operator {
                    PrefixOperator::Minus => -v,
                    PrefixOperator::Plus => v,
                }
            }
            Expression::FunctionCall(f) => {
                let v = child(&f.expression, memo, diag)?;
                function(f.function, v, diag)
            }
            Expression::Infix(i) => {
                let l = child(&i.left, memo, diag);
                let r = child(&i.right, memo, diag);
                let (l, r) = (l?, r?);
                match i.operator {
                    InfixOperator::Plus => l + r,
                    InfixOperator::Minus => l - r,
                    InfixOperator::Star => l * r,
                    InfixOperator::Slash => l / r,
                    InfixOperator::Caret => pow(l, r, diag),
                }
            }
        })
    }
    go(e, &mut Default::default(), &mut Diag::default())
}

pub fn finite(z: Complex64) -> bool {
    z.re.is_finite() && z.im.is_finite()
}

pub fn close(a: Complex64, b: Complex64, rel: f64) -> bool {
    (a - b).norm() <= rel * a.norm().max(b.norm()).max(1.0)
}

#[derive(Debug, Clone, Copy, PartialEq)]
pub enum Screen {
    Ok(Complex64),
    Incomplete,
    NonFinite,
    BranchCut,
    ZeroBase,
    /// value computed, but a 0^0 occurred on the way
    ZeroPowZero(Complex64),
    IllConditioned,
}

/// Evaluate and screen: finite, off branch cuts, and stable under relative leaf perturbations of
/// 1e-9 (result moves by at most `max_shift`·max(1,|v|)).
pub fn eval_screened(e: &Expression, env: &Env, max_shift: f64) -> Screen {
    let mut diag = Diag::default();
    let Some(v) = eval(e, env, &mut None, &mut diag) else { return Screen::Incomplete };
    if !finite(v) {
        return Screen::NonFinite;
    }
    if diag.zero_base {
        return Screen::ZeroBase;
    }
    if diag.branch_cut {
        return Screen::BranchCut;
    }
    if diag.unstable || diag.nonfinite_intermediate {
        return Screen::IllConditioned;
    }
    for pattern in 0..6u64 {
        let mut d = Diag::default();
        let delta = if pattern % 2 == 0 { 1e-9 } else { 1e-12 };
        let mut p = Some(Perturb { delta, pattern, counter: 0 });
        let Some(w) = eval(e, env, &mut p, &mut d) else { return Screen::Incomplete };
        if !finite(w) {
            return Screen::IllConditioned;
        }
        if d.branch_cut {
            return Screen::BranchCut;
        }
        if (w - v).norm() > max_shift * v.norm().max(1.0) {
            return Screen::IllConditioned;
        }
    }
    if diag.zero_pow_zero {
        return Screen::ZeroPowZero(v);
    }
    Screen::Ok(v)
}
