//! A tiny classical interpreter for straight-line-plus-loop bodies (C33): integer memory that is
//! zero-initialised, labels and jumps, MOVE/ADD/SUB/MUL with integer literals or references.
//! Every instruction that is neither control flow nor an update of a *tracked* region is recorded
//! in the trace in the order it is passed.
//!
//! Semantics used (Quil spec §"Classical control" and the rustdoc of `Program::wrap_in_loop`, which
//! says the loop ends when the counter reaches 0): JUMP-WHEN is taken iff the referenced cell is
//! non-zero, JUMP-UNLESS iff it is zero.

use quil_rs::instruction::{ArithmeticOperand, ArithmeticOperator, Instruction, MemoryReference, Target};
use std::collections::HashMap;

#[derive(Debug, PartialEq)]
pub enum Stop {
    /// fell off the end of the body or reached HALT
    Finished,
    StepBound,
    /// a jump to a label the body does not define, an update of a tracked region the model does not
    /// understand, or a reference outside the tracked region
    Unsupported(String),
}

pub struct Run {
    pub trace: Vec<Instruction>,
    pub stop: Stop,
    pub steps: usize,
}

fn touches(i: &Instruction, region: &str) -> bool {
    let m = |r: &MemoryReference| r.name == region;
    match i {
        Instruction::Move(x) => m(&x.destination) || matches!(&x.source, ArithmeticOperand::MemoryReference(r) if m(r)),
        Instruction::Arithmetic(x) => m(&x.destination) || matches!(&x.source, ArithmeticOperand::MemoryReference(r) if m(r)),
        Instruction::JumpWhen(j) => m(&j.condition),
        Instruction::JumpUnless(j) => m(&j.condition),
        _ => false,
    }
}

/// Interpret `body`; `tracked` is the only region whose contents the model follows (length `len`).
pub fn run(body: &[Instruction], tracked: &str, len: usize, max_steps: usize) -> Run {
    let mut mem: Vec<i64> = vec![0; len];
    let mut labels: HashMap<&Target, usize> = HashMap::new();
    for (k, i) in body.iter().enumerate() {
        if let Instruction::Label(l) = i {
            // the first definition wins; a duplicate label is the generator's business
            labels.entry(&l.target).or_insert(k);
        }
    }
    let mut trace = vec![];
    let mut pc = 0usize;
    let mut steps = 0usize;
    let cell = |r: &MemoryReference, mem: &Vec<i64>| -> Result<i64, String> {
        if r.name != tracked {
            return Err(format!("condition/operand in untracked region {}", r.name));
        }
        mem.get(r.index as usize).copied().ok_or_else(|| format!("index {} out of range of {tracked}[{len}]", r.index))
    };
    loop {
        if pc >= body.len() {
            return Run { trace, stop: Stop::Finished, steps };
        }
        if steps >= max_steps {
            return Run { trace, stop: Stop::StepBound, steps };
        }
        steps += 1;
        let i = &body[pc];
        let mut next = pc + 1;
        let jump = |t: &Target| labels.get(t).copied().ok_or_else(|| "jump to an undefined label".to_string());
        let r: Result<(), String> = (|| {
            match i {
                Instruction::Halt() => {
                    next = usize::MAX;
                }
                Instruction::Label(_) => {}
                Instruction::Jump(j) => next = jump(&j.target)?,
                Instruction::JumpWhen(j) => {
                    if cell(&j.condition, &mem)? != 0 {
                        next = jump(&j.target)?
                    }
                }
                Instruction::JumpUnless(j) => {
                    if cell(&j.condition, &mem)? == 0 {
                        next = jump(&j.target)?
                    }
                }
                Instruction::Move(m) if touches(i, tracked) => {
                    let v = match &m.source {
                        ArithmeticOperand::LiteralInteger(v) => *v,
                        ArithmeticOperand::MemoryReference(r) => cell(r, &mem)?,
                        ArithmeticOperand::LiteralReal(_) => return Err("real literal moved into the tracked integer region".into()),
                    };
                    cell(&m.destination, &mem)?;
                    mem[m.destination.index as usize] = v;
                }
                Instruction::Arithmetic(a) if touches(i, tracked) => {
                    let v = match &a.source {
                        ArithmeticOperand::LiteralInteger(v) => *v,
                        ArithmeticOperand::MemoryReference(r) => cell(r, &mem)?,
                        ArithmeticOperand::LiteralReal(_) => return Err("real literal applied to the tracked integer region".into()),
                    };
                    let old = cell(&a.destination, &mem)?;
                    mem[a.destination.index as usize] = match a.operator {
                        ArithmeticOperator::Add => old.wrapping_add(v),
                        ArithmeticOperator::Subtract => old.wrapping_sub(v),
                        ArithmeticOperator::Multiply => old.wrapping_mul(v),
                        ArithmeticOperator::Divide => {
                            if v == 0 {
                                return Err("division by zero on the tracked region".into());
                            }
                            old.wrapping_div(v)
                        }
                    };
                }
                other if touches_any(other, tracked) => return Err(format!("unmodelled instruction on the tracked region: {other:?}")),
                other => trace.push(other.clone()),
            }
            Ok(())
        })();
        if let Err(e) = r {
            return Run { trace, stop: Stop::Unsupported(e), steps };
        }
        if next == usize::MAX {
            return Run { trace, stop: Stop::Finished, steps };
        }
        pc = next;
    }
}

/// Conservative: does the instruction mention the region at all (through the library's own access report)?
fn touches_any(i: &Instruction, region: &str) -> bool {
    use quil_rs::instruction::{DefaultHandler, InstructionHandler};
    match DefaultHandler.memory_accesses(&Default::default(), i) {
        Ok(acc) => acc.reads.contains(region) || acc.writes.contains(region) || acc.captures.contains(region),
        Err(_) => false,
    }
}
