//! Reference unitaries: the 22 standard gates typed from the Quil specification §4.3 "Standard
//! Gate Definitions" (independent of the tables in `gate.rs`), a bit-manipulation lifter, and the
//! modifier semantics of §4.4.
//!
//! Conventions (Quil spec / property statement): qubit 0 is the least significant bit of a basis
//! index of the n-qubit space; within a gate's own matrix the FIRST listed qubit is the MOST
//! significant bit of the gate-local index.

use num_complex::Complex64;

#[derive(Clone, Debug, PartialEq)]
pub struct Mat {
    pub n: usize,
    pub d: Vec<Complex64>,
}

const O: Complex64 = Complex64::new(0.0, 0.0);
const L: Complex64 = Complex64::new(1.0, 0.0);
const J: Complex64 = Complex64::new(0.0, 1.0);

impl Mat {
    pub fn zeros(n: usize) -> Mat {
        Mat { n, d: vec![O; n * n] }
    }
    pub fn eye(n: usize) -> Mat {
        let mut m = Mat::zeros(n);
        for i in 0..n {
            m.d[i * n + i] = L;
        }
        m
    }
    pub fn from_rows(rows: &[&[Complex64]]) -> Mat {
        let n = rows.len();
        let mut m = Mat::zeros(n);
        for (i, r) in rows.iter().enumerate() {
            assert_eq!(r.len(), n);
            for (j, v) in r.iter().enumerate() {
                m.d[i * n + j] = *v;
            }
        }
        m
    }
    pub fn diag(v: &[Complex64]) -> Mat {
        let mut m = Mat::zeros(v.len());
        for (i, x) in v.iter().enumerate() {
            m.d[i * v.len() + i] = *x;
        }
        m
    }
    pub fn at(&self, i: usize, j: usize) -> Complex64 {
        self.d[i * self.n + j]
    }
    pub fn set(&mut self, i: usize, j: usize, v: Complex64) {
        let n = self.n;
        self.d[i * n + j] = v;
    }
    pub fn mul(&self, o: &Mat) -> Mat {
        assert_eq!(self.n, o.n);
        let n = self.n;
        let mut r = Mat::zeros(n);
        for i in 0..n {
            for k in 0..n {
                let a = self.d[i * n + k];
                if a == O {
                    continue;
                }
                for j in 0..n {
                    r.d[i * n + j] += a * o.d[k * n + j];
                }
            }
        }
        r
    }
    pub fn adjoint(&self) -> Mat {
        let n = self.n;
        let mut r = Mat::zeros(n);
        for i in 0..n {
            for j in 0..n {
                r.d[j * n + i] = self.d[i * n + j].conj();
            }
        }
        r
    }
    pub fn max_diff(&self, o: &Mat) -> f64 {
        self.d.iter().zip(o.d.iter()).map(|(a, b)| (a - b).norm()).fold(0.0, f64::max)
    }
    pub fn is_unitary(&self, tol: f64) -> bool {
        self.mul(&self.adjoint()).max_diff(&Mat::eye(self.n)) <= tol
    }
}

fn cis(a: f64) -> Complex64 {
    Complex64::new(a.cos(), a.sin())
}

/// (name, number of qubits, number of parameters)
pub const STANDARD: [(&str, usize, usize); 22] = [
    ("I", 1, 0),
    ("X", 1, 0),
    ("Y", 1, 0),
    ("Z", 1, 0),
    ("H", 1, 0),
    ("S", 1, 0),
    ("T", 1, 0),
    ("CNOT", 2, 0),
    ("CCNOT", 3, 0),
    ("CZ", 2, 0),
    ("SWAP", 2, 0),
    ("CSWAP", 3, 0),
    ("ISWAP", 2, 0),
    ("RX", 1, 1),
    ("RY", 1, 1),
    ("RZ", 1, 1),
    ("PHASE", 1, 1),
    ("CPHASE", 2, 1),
    ("CPHASE00", 2, 1),
    ("CPHASE01", 2, 1),
    ("CPHASE10", 2, 1),
    ("PSWAP", 2, 1),
];

/// The gate's own matrix per the Quil specification. `theta` is ignored for constant gates.
pub fn standard(name: &str, theta: f64) -> Option<Mat> {
    let s = std::f64::consts::FRAC_1_SQRT_2;
    let h = Complex64::new(s, 0.0);
    let perm = |n: usize, p: &[usize]| {
        // column j maps to row p[j]
        let mut m = Mat::zeros(n);
        for (j, i) in p.iter().enumerate() {
            m.set(*i, j, L);
        }
        m
    };
    Some(match name {
        "I" => Mat::eye(2),
        "X" => Mat::from_rows(&[&[O, L], &[L, O]]),
        "Y" => Mat::from_rows(&[&[O, -J], &[J, O]]),
        "Z" => Mat::diag(&[L, -L]),
        "H" => Mat::from_rows(&[&[h, h], &[h, -h]]),
        "S" => Mat::diag(&[L, J]),
        "T" => Mat::diag(&[L, cis(std::f64::consts::FRAC_PI_4)]),
        "CNOT" => perm(4, &[0, 1, 3, 2]),
        "CCNOT" => perm(8, &[0, 1, 2, 3, 4, 5, 7, 6]),
        "CZ" => Mat::diag(&[L, L, L, -L]),
        "SWAP" => perm(4, &[0, 2, 1, 3]),
        "CSWAP" => perm(8, &[0, 1, 2, 3, 4, 6, 5, 7]),
        "ISWAP" => Mat::from_rows(&[&[L, O, O, O], &[O, O, J, O], &[O, J, O, O], &[O, O, O, L]]),
        "RX" => {
            let (c, sn) = (Complex64::new((theta / 2.0).cos(), 0.0), Complex64::new(0.0, -(theta / 2.0).sin()));
            Mat::from_rows(&[&[c, sn], &[sn, c]])
        }
        "RY" => {
            let (c, sn) = (Complex64::new((theta / 2.0).cos(), 0.0), Complex64::new((theta / 2.0).sin(), 0.0));
            Mat::from_rows(&[&[c, -sn], &[sn, c]])
        }
        "RZ" => Mat::diag(&[cis(-theta / 2.0), cis(theta / 2.0)]),
        "PHASE" => Mat::diag(&[L, cis(theta)]),
        "CPHASE" => Mat::diag(&[L, L, L, cis(theta)]),
        "CPHASE00" => Mat::diag(&[cis(theta), L, L, L]),
        "CPHASE01" => Mat::diag(&[L, cis(theta), L, L]),
        "CPHASE10" => Mat::diag(&[L, L, cis(theta), L]),
        "PSWAP" => {
            let e = cis(theta);
            Mat::from_rows(&[&[L, O, O, O], &[O, O, e, O], &[O, e, O, O], &[O, O, O, L]])
        }
        _ => return None,
    })
}

/// Lift a k-qubit matrix acting on `qubits` (first = most significant local bit) to n qubits.
pub fn lift(u: &Mat, qubits: &[u64], n_qubits: u64) -> Mat {
    let k = qubits.len();
    assert_eq!(u.n, 1 << k);
    let dim = 1usize << n_qubits;
    let mut out = Mat::zeros(dim);
    let mask: usize = qubits.iter().map(|q| 1usize << q).sum();
    let local = |idx: usize| -> usize {
        let mut g = 0;
        for (j, q) in qubits.iter().enumerate() {
            if idx >> q & 1 == 1 {
                g |= 1 << (k - 1 - j);
            }
        }
        g
    };
    for col in 0..dim {
        let gc = local(col);
        let rest = col & !mask;
        for gr in 0..(1 << k) {
            let v = u.at(gr, gc);
            if v == O {
                continue;
            }
            let mut row = rest;
            for (j, q) in qubits.iter().enumerate() {
                if gr >> (k - 1 - j) & 1 == 1 {
                    row |= 1 << q;
                }
            }
            out.set(row, col, v);
        }
    }
    out
}

#[derive(Clone, Copy, Debug, PartialEq, Eq)]
pub enum Modifier {
    Dagger,
    Controlled,
    Forked,
}

/// Gate-local matrix of `modifiers base(params)` where `modifiers[0]` is the OUTERMOST modifier
/// (the leftmost in Quil text). The local qubit order is: one extra leading qubit per
/// CONTROLLED/FORKED from the outside in, then the base gate's qubits.
///
/// DAGGER ↦ adjoint; CONTROLLED ↦ |0><0|⊗I + |1><1|⊗U on the leading qubit;
/// FORKED ↦ |0><0|⊗U(first half of the parameters) + |1><1|⊗U(second half).
pub fn modified(base: &str, params: &[f64], modifiers: &[Modifier]) -> Option<Mat> {
    match modifiers.first() {
        None => {
            let (_, _, np) = STANDARD.iter().find(|(n, _, _)| *n == base)?;
            if params.len() != *np {
                return None;
            }
            standard(base, params.first().copied().unwrap_or(0.0))
        }
        Some(Modifier::Dagger) => Some(modified(base, params, &modifiers[1..])?.adjoint()),
        Some(Modifier::Controlled) => {
            let u = modified(base, params, &modifiers[1..])?;
            Some(block_diag(&Mat::eye(u.n), &u))
        }
        Some(Modifier::Forked) => {
            if params.len() % 2 != 0 {
                return None;
            }
            let (a, b) = params.split_at(params.len() / 2);
            let u0 = modified(base, a, &modifiers[1..])?;
            let u1 = modified(base, b, &modifiers[1..])?;
            Some(block_diag(&u0, &u1))
        }
    }
}

fn block_diag(a: &Mat, b: &Mat) -> Mat {
    assert_eq!(a.n, b.n);
    let n = a.n;
    let mut m = Mat::zeros(2 * n);
    for i in 0..n {
        for j in 0..n {
            m.set(i, j, a.at(i, j));
            m.set(n + i, n + j, b.at(i, j));
        }
    }
    m
}

/// All injective placements of k qubits into 0..n, in lexicographic order.
pub fn placements(k: usize, n: u64) -> Vec<Vec<u64>> {
    fn go(k: usize, n: u64, cur: &mut Vec<u64>, out: &mut Vec<Vec<u64>>) {
        if cur.len() == k {
            out.push(cur.clone());
            return;
        }
        for q in 0..n {
            if !cur.contains(&q) {
                cur.push(q);
                go(k, n, cur, out);
                cur.pop();
            }
        }
    }
    let mut out = vec![];
    go(k, n, &mut vec![], &mut out);
    out
}

pub fn from_ndarray(a: &ndarray::Array2<Complex64>) -> Mat {
    let n = a.shape()[0];
    let mut m = Mat::zeros(n);
    for i in 0..n {
        for j in 0..n {
            m.set(i, j, a[[i, j]]);
        }
    }
    m
}
