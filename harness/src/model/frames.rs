//! Reference for default frame matching, written from the Quil-T rules in the C26 statement:
//!
//! * PULSE / CAPTURE / RAW-CAPTURE use exactly their own frame and, if blocking, block every
//!   other frame sharing a qubit with it;
//! * SET-*/SHIFT-* and SWAP-PHASES use exactly their frames;
//! * FENCE uses all frames, or those touching any of its qubits when qubits are listed;
//! * DELAY uses the frames on exactly its qubits (as a set), restricted to its frame names if given;
//! * RESET q uses the frames on exactly {q} and blocks the other frames touching q;
//! * everything reported is a defined frame, and used/blocked are disjoint.

use quil_rs::instruction::{FrameIdentifier, Instruction, Qubit};
use std::collections::BTreeSet;

/// Frames are identified by their index in `defined`.
#[derive(Debug, Clone, PartialEq, Eq, Default)]
pub struct Matched {
    pub used: BTreeSet<usize>,
    pub blocked: BTreeSet<usize>,
}

fn qset(f: &FrameIdentifier) -> BTreeSet<String> {
    f.qubits.iter().map(qkey).collect()
}

pub fn qkey(q: &Qubit) -> String {
    match q {
        Qubit::Fixed(i) => format!("{i}"),
        Qubit::Variable(v) => format!("v:{v}"),
        Qubit::Placeholder(p) => format!("p:{p:?}"),
    }
}

fn shares_qubit(f: &FrameIdentifier, qs: &BTreeSet<String>) -> bool {
    f.qubits.iter().any(|q| qs.contains(&qkey(q)))
}

/// `None` = the statement does not define the result (bare RESET, non-frame instructions).
pub fn matching(defined: &[FrameIdentifier], instruction: &Instruction) -> Option<Matched> {
    let index_of = |f: &FrameIdentifier| defined.iter().position(|d| d == f);
    let mut m = Matched::default();
    match instruction {
        Instruction::Pulse(p) => pulse_like(defined, &p.frame, p.blocking, &mut m),
        Instruction::Capture(c) => pulse_like(defined, &c.frame, c.blocking, &mut m),
        Instruction::RawCapture(c) => pulse_like(defined, &c.frame, c.blocking, &mut m),
        Instruction::SetFrequency(s) => m.used.extend(index_of(&s.frame)),
        Instruction::SetPhase(s) => m.used.extend(index_of(&s.frame)),
        Instruction::SetScale(s) => m.used.extend(index_of(&s.frame)),
        Instruction::ShiftFrequency(s) => m.used.extend(index_of(&s.frame)),
        Instruction::ShiftPhase(s) => m.used.extend(index_of(&s.frame)),
        Instruction::SwapPhases(s) => {
            m.used.extend(index_of(&s.frame_1));
            m.used.extend(index_of(&s.frame_2));
        }
        Instruction::Fence(f) => {
            if f.qubits.is_empty() {
                m.used.extend(0..defined.len());
            } else {
                let qs: BTreeSet<String> = f.qubits.iter().map(qkey).collect();
                m.used.extend((0..defined.len()).filter(|i| shares_qubit(&defined[*i], &qs)));
            }
        }
        Instruction::Delay(d) => {
            let qs: BTreeSet<String> = d.qubits.iter().map(qkey).collect();
            m.used.extend((0..defined.len()).filter(|i| {
                qset(&defined[*i]) == qs && (d.frame_names.is_empty() || d.frame_names.contains(&defined[*i].name))
            }));
        }
        Instruction::Reset(r) => {
            let q = r.qubit.as_ref()?;
            let qs: BTreeSet<String> = [qkey(q)].into_iter().collect();
            for (i, f) in defined.iter().enumerate() {
                if qset(f) == qs {
                    m.used.insert(i);
                } else if shares_qubit(f, &qs) {
                    m.blocked.insert(i);
                }
            }
        }
        _ => return None,
    }
    Some(m)
}

fn pulse_like(defined: &[FrameIdentifier], frame: &FrameIdentifier, blocking: bool, m: &mut Matched) {
    if let Some(i) = defined.iter().position(|d| d == frame) {
        m.used.insert(i);
    }
    if blocking {
        let qs = qset(frame);
        for (i, f) in defined.iter().enumerate() {
            if f != frame && shares_qubit(f, &qs) {
                m.blocked.insert(i);
            }
        }
    }
}
