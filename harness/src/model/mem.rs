//! Reference for per-instruction memory accesses, from the C27 statement and the Quil spec
//! semantics of each instruction: a region is *read* when its contents are consulted (operands,
//! expression references, conditions, offsets), *written* when the instruction assigns it, and
//! *captured* when it receives a measurement / capture result. CALL: the return slot and every
//! region passed to a mutable parameter are written, every passed region is read.

use crate::gen::expr as gx;
use quil_rs::expression::Expression;
use quil_rs::instruction::{ArithmeticOperand, BinaryOperand, ComparisonOperand, Instruction, UnresolvedCallArgument};
use std::collections::BTreeSet;

#[derive(Debug, Default, Clone, PartialEq, Eq)]
pub struct Accesses {
    pub reads: BTreeSet<String>,
    pub writes: BTreeSet<String>,
    pub captures: BTreeSet<String>,
}

fn expr_reads(e: &Expression, out: &mut BTreeSet<String>) {
    let mut v = vec![];
    gx::addresses(e, &mut v);
    out.extend(v.into_iter().map(|(n, _)| n));
}

/// (has return slot, mutable flag per parameter)
pub struct CallShape {
    pub has_return: bool,
    pub mutable: Vec<bool>,
}

/// `None` for instruction kinds the generators of C27/C23 do not produce.
pub fn accesses(i: &Instruction, call_shape: Option<&CallShape>) -> Option<Accesses> {
    let mut a = Accesses::default();
    match i {
        Instruction::Move(m) => {
            a.writes.insert(m.destination.name.clone());
            if let ArithmeticOperand::MemoryReference(r) = &m.source {
                a.reads.insert(r.name.clone());
            }
        }
        Instruction::Arithmetic(x) => {
            a.reads.insert(x.destination.name.clone());
            a.writes.insert(x.destination.name.clone());
            if let ArithmeticOperand::MemoryReference(r) = &x.source {
                a.reads.insert(r.name.clone());
            }
        }
        Instruction::BinaryLogic(x) => {
            a.reads.insert(x.destination.name.clone());
            a.writes.insert(x.destination.name.clone());
            if let BinaryOperand::MemoryReference(r) = &x.source {
                a.reads.insert(r.name.clone());
            }
        }
        Instruction::UnaryLogic(x) => {
            a.reads.insert(x.operand.name.clone());
            a.writes.insert(x.operand.name.clone());
        }
        Instruction::Exchange(x) => {
            for r in [&x.left, &x.right] {
                a.reads.insert(r.name.clone());
                a.writes.insert(r.name.clone());
            }
        }
        Instruction::Convert(x) => {
            a.writes.insert(x.destination.name.clone());
            a.reads.insert(x.source.name.clone());
        }
        Instruction::Comparison(x) => {
            a.writes.insert(x.destination.name.clone());
            a.reads.insert(x.lhs.name.clone());
            if let ComparisonOperand::MemoryReference(r) = &x.rhs {
                a.reads.insert(r.name.clone());
            }
        }
        Instruction::Load(x) => {
            a.writes.insert(x.destination.name.clone());
            a.reads.insert(x.source.clone());
            a.reads.insert(x.offset.name.clone());
        }
        Instruction::Store(x) => {
            a.writes.insert(x.destination.clone());
            a.reads.insert(x.offset.name.clone());
            if let ArithmeticOperand::MemoryReference(r) = &x.source {
                a.reads.insert(r.name.clone());
            }
        }
        Instruction::JumpWhen(j) => {
            a.reads.insert(j.condition.name.clone());
        }
        Instruction::JumpUnless(j) => {
            a.reads.insert(j.condition.name.clone());
        }
        Instruction::Measurement(m) => {
            if let Some(t) = &m.target {
                a.captures.insert(t.name.clone());
            }
        }
        Instruction::Capture(c) => {
            a.captures.insert(c.memory_reference.name.clone());
            for e in c.waveform.parameters.values() {
                expr_reads(e, &mut a.reads);
            }
        }
        Instruction::RawCapture(c) => {
            a.captures.insert(c.memory_reference.name.clone());
            expr_reads(&c.duration, &mut a.reads);
        }
        Instruction::Pulse(p) => {
            for e in p.waveform.parameters.values() {
                expr_reads(e, &mut a.reads);
            }
        }
        Instruction::Delay(d) => expr_reads(&d.duration, &mut a.reads),
        Instruction::SetFrequency(s) => expr_reads(&s.frequency, &mut a.reads),
        Instruction::SetPhase(s) => expr_reads(&s.phase, &mut a.reads),
        Instruction::SetScale(s) => expr_reads(&s.scale, &mut a.reads),
        Instruction::ShiftFrequency(s) => expr_reads(&s.frequency, &mut a.reads),
        Instruction::ShiftPhase(s) => expr_reads(&s.phase, &mut a.reads),
        Instruction::Gate(g) => {
            for e in &g.parameters {
                expr_reads(e, &mut a.reads);
            }
        }
        Instruction::Fence(_)
        | Instruction::Reset(_)
        | Instruction::SwapPhases(_)
        | Instruction::Nop()
        | Instruction::Wait()
        | Instruction::Halt()
        | Instruction::Jump(_)
        | Instruction::Label(_)
        | Instruction::Pragma(_) => {}
        Instruction::Call(c) => {
            let shape = call_shape?;
            let mut args = c.arguments.iter();
            let name_of = |u: &UnresolvedCallArgument| match u {
                UnresolvedCallArgument::Identifier(s) => Some(s.clone()),
                UnresolvedCallArgument::MemoryReference(m) => Some(m.name.clone()),
                UnresolvedCallArgument::Immediate(_) => None,
            };
            if shape.has_return {
                if let Some(n) = args.next().and_then(name_of) {
                    a.reads.insert(n.clone());
                    a.writes.insert(n);
                }
            }
            for (arg, mutable) in args.zip(shape.mutable.iter()) {
                if let Some(n) = name_of(arg) {
                    a.reads.insert(n.clone());
                    if *mutable {
                        a.writes.insert(n);
                    }
                }
            }
        }
        // A definition consults, assigns and captures what the instructions of its body do, plus
        // what its own expressions (calibration parameters, matrix / waveform entries, the
        // parameters of sequence elements) reference.
        Instruction::CalibrationDefinition(c) => {
            for e in &c.identifier.parameters {
                expr_reads(e, &mut a.reads);
            }
            for b in &c.instructions {
                a.absorb(&accesses(b, call_shape)?);
            }
        }
        Instruction::MeasureCalibrationDefinition(c) => {
            for b in &c.instructions {
                a.absorb(&accesses(b, call_shape)?);
            }
        }
        Instruction::CircuitDefinition(c) => {
            for b in &c.instructions {
                a.absorb(&accesses(b, call_shape)?);
            }
        }
        Instruction::WaveformDefinition(w) => {
            for e in &w.definition.matrix {
                expr_reads(e, &mut a.reads);
            }
        }
        Instruction::GateDefinition(g) => match &g.specification {
            quil_rs::instruction::GateSpecification::Matrix(m) => {
                for e in m.iter().flatten() {
                    expr_reads(e, &mut a.reads);
                }
            }
            quil_rs::instruction::GateSpecification::Permutation(_) | quil_rs::instruction::GateSpecification::PauliSum(_) => {}
            quil_rs::instruction::GateSpecification::Sequence(_) => {
                // the element list is private: read the elements back from the printed definition
                use quil_rs::quil::Quil;
                use std::str::FromStr;
                let text = i.to_quil().ok()?;
                for line in text.lines().skip(1).filter(|l| !l.trim().is_empty()) {
                    match Instruction::from_str(line.trim()).ok()? {
                        Instruction::Gate(gate) => {
                            for e in &gate.parameters {
                                expr_reads(e, &mut a.reads);
                            }
                        }
                        _ => return None,
                    }
                }
            }
        },
        _ => return None,
    }
    Some(a)
}

impl Accesses {
    fn absorb(&mut self, other: &Accesses) {
        self.reads.extend(other.reads.iter().cloned());
        self.writes.extend(other.writes.iter().cloned());
        self.captures.extend(other.captures.iter().cloned());
    }
}
