//! Reference model of calibration sets, matching precedence and expansion, written from the
//! statements of C16–C18 (and the Quil-T rules they paraphrase).

use quil_rs::expression::{Expression, FunctionCallExpression, InfixExpression, PrefixExpression};
use quil_rs::instruction::{
    CalibrationDefinition, FrameIdentifier, Gate, Instruction, MeasureCalibrationDefinition, Measurement, MemoryReference, Qubit,
};
use quil_rs::quil::Quil;
use std::collections::HashMap;

/// Insertion-ordered sets with replace-in-place on an identical signature.
#[derive(Clone, Debug, Default)]
pub struct CalSet {
    pub gates: Vec<CalibrationDefinition>,
    pub measures: Vec<MeasureCalibrationDefinition>,
}

impl CalSet {
    pub fn insert_gate(&mut self, c: CalibrationDefinition) {
        let same = |a: &CalibrationDefinition, b: &CalibrationDefinition| {
            a.identifier.name == b.identifier.name
                && a.identifier.modifiers == b.identifier.modifiers
                && a.identifier.parameters == b.identifier.parameters
                && a.identifier.qubits == b.identifier.qubits
        };
        if let Some(slot) = self.gates.iter_mut().find(|x| same(x, &c)) {
            *slot = c;
        } else {
            self.gates.push(c);
        }
    }
    pub fn insert_measure(&mut self, c: MeasureCalibrationDefinition) {
        let same = |a: &MeasureCalibrationDefinition, b: &MeasureCalibrationDefinition| {
            a.identifier.name == b.identifier.name && a.identifier.qubit == b.identifier.qubit && a.identifier.target == b.identifier.target
        };
        if let Some(slot) = self.measures.iter_mut().find(|x| same(x, &c)) {
            *slot = c;
        } else {
            self.measures.push(c);
        }
    }
    pub fn insert(&mut self, i: &Instruction) {
        match i {
            Instruction::CalibrationDefinition(c) => self.insert_gate(c.clone()),
            Instruction::MeasureCalibrationDefinition(c) => self.insert_measure(c.clone()),
            _ => {}
        }
    }
    pub fn to_instructions(&self) -> Vec<Instruction> {
        self.gates
            .iter()
            .cloned()
            .map(Instruction::CalibrationDefinition)
            .chain(self.measures.iter().cloned().map(Instruction::MeasureCalibrationDefinition))
            .collect()
    }
}

thread_local! {
    /// Set when a closed parameter with a tiny non-zero value (0 < |v| < 1e-7) took part in a
    /// match decision. The library compares parameters after simplification, and its simplifier
    /// documents that a factor below 1e-10 folds a product to zero; which side of that threshold a
    /// repeatedly squared parameter is on at a given level is the simplifier's business (C12), not
    /// the matcher's, so callers that build such parameters (C18's growth programs) do not compare
    /// the expansion when this flag is set.
    pub static THRESHOLD_SENSITIVE: std::cell::Cell<bool> = const { std::cell::Cell::new(false) };
}

/// Constant value of a parameter expression, if it has no variables / memory references.
fn constant(e: &Expression) -> Option<num_complex::Complex64> {
    let v = crate::model::eval::eval_closed(e);
    if let Some(z) = v {
        if z.norm() > 0.0 && z.norm() < 1e-7 {
            THRESHOLD_SENSITIVE.with(|f| f.set(true));
        }
    }
    v
}

/// "non-variable parameters equal its own": equal constants, or structurally equal otherwise.
pub fn parameter_matches(cal: &Expression, gate: &Expression) -> bool {
    if let Expression::Variable(_) = cal {
        return true;
    }
    match (constant(cal), constant(gate)) {
        (Some(a), Some(b)) => a == b,
        (None, None) => cal == gate,
        _ => false,
    }
}

pub fn gate_candidates(set: &CalSet, g: &Gate) -> Vec<usize> {
    set.gates
        .iter()
        .enumerate()
        .filter(|(_, c)| {
            let id = &c.identifier;
            id.name == g.name
                && id.modifiers == g.modifiers
                && id.parameters.len() == g.parameters.len()
                && id.qubits.len() == g.qubits.len()
                && id.qubits.iter().zip(g.qubits.iter()).all(|(cq, gq)| match cq {
                    Qubit::Fixed(n) => matches!(gq, Qubit::Fixed(m) if m == n),
                    Qubit::Variable(_) => true,
                    Qubit::Placeholder(_) => false,
                })
                && id.parameters.iter().zip(g.parameters.iter()).all(|(cp, gp)| parameter_matches(cp, gp))
        })
        .map(|(i, _)| i)
        .collect()
}

/// Most fixed qubits wins, ties go to the later definition.
pub fn match_gate(set: &CalSet, g: &Gate) -> Option<usize> {
    let fixed = |i: usize| set.gates[i].identifier.qubits.iter().filter(|q| matches!(q, Qubit::Fixed(_))).count();
    gate_candidates(set, g).into_iter().max_by_key(|i| (fixed(*i), *i))
}

pub fn measure_candidates(set: &CalSet, m: &Measurement) -> Vec<(usize, bool)> {
    set.measures
        .iter()
        .enumerate()
        .filter_map(|(i, c)| {
            let id = &c.identifier;
            if id.name != m.name || id.target.is_some() != m.target.is_some() {
                return None;
            }
            match &id.qubit {
                Qubit::Fixed(n) => matches!(&m.qubit, Qubit::Fixed(k) if k == n).then_some((i, true)),
                Qubit::Variable(_) => Some((i, false)),
                Qubit::Placeholder(_) => None,
            }
        })
        .collect()
}

/// An exact fixed-qubit match beats a variable one; the later definition wins.
pub fn match_measure(set: &CalSet, m: &Measurement) -> Option<usize> {
    let c = measure_candidates(set, m);
    c.iter().filter(|(_, exact)| *exact).map(|(i, _)| *i).max().or_else(|| c.iter().map(|(i, _)| *i).max())
}

// ---------------------------------------------------------------------------------------------
// substitution

pub fn subst_expr(e: &Expression, vars: &HashMap<String, Expression>) -> Expression {
    match e {
        Expression::Variable(v) => vars.get(v).cloned().unwrap_or_else(|| e.clone()),
        Expression::Infix(i) => {
            Expression::Infix(InfixExpression::new(subst_expr(&i.left, vars).into(), i.operator, subst_expr(&i.right, vars).into()))
        }
        Expression::Prefix(p) => Expression::Prefix(PrefixExpression::new(p.operator, subst_expr(&p.expression, vars).into())),
        Expression::FunctionCall(f) => Expression::FunctionCall(FunctionCallExpression::new(f.function, subst_expr(&f.expression, vars).into())),
        other => other.clone(),
    }
}

fn subst_qubit(q: &mut Qubit, qubits: &HashMap<String, Qubit>) {
    if let Qubit::Variable(v) = q {
        if let Some(r) = qubits.get(v) {
            *q = r.clone();
        }
    }
}

fn subst_frame(f: &mut FrameIdentifier, qubits: &HashMap<String, Qubit>) {
    for q in f.qubits.iter_mut() {
        subst_qubit(q, qubits);
    }
}

/// Substitute qubit variables and parameter variables everywhere they can occur in a body
/// instruction.
pub fn subst_instruction(i: &Instruction, qubits: &HashMap<String, Qubit>, vars: &HashMap<String, Expression>) -> Instruction {
    let mut i = i.clone();
    let sx = |e: &mut Expression| *e = subst_expr(e, vars);
    match &mut i {
        Instruction::Gate(g) => {
            g.qubits.iter_mut().for_each(|q| subst_qubit(q, qubits));
            g.parameters.iter_mut().for_each(sx);
        }
        Instruction::Measurement(m) => subst_qubit(&mut m.qubit, qubits),
        Instruction::Reset(r) => {
            if let Some(q) = r.qubit.as_mut() {
                subst_qubit(q, qubits)
            }
        }
        Instruction::Delay(d) => {
            d.qubits.iter_mut().for_each(|q| subst_qubit(q, qubits));
            sx(&mut d.duration);
        }
        Instruction::Fence(f) => f.qubits.iter_mut().for_each(|q| subst_qubit(q, qubits)),
        Instruction::Pulse(p) => {
            subst_frame(&mut p.frame, qubits);
            p.waveform.parameters.values_mut().for_each(sx);
        }
        Instruction::Capture(c) => {
            subst_frame(&mut c.frame, qubits);
            c.waveform.parameters.values_mut().for_each(sx);
        }
        Instruction::RawCapture(c) => {
            subst_frame(&mut c.frame, qubits);
            sx(&mut c.duration);
        }
        Instruction::SetFrequency(s) => {
            subst_frame(&mut s.frame, qubits);
            sx(&mut s.frequency);
        }
        Instruction::SetPhase(s) => {
            subst_frame(&mut s.frame, qubits);
            sx(&mut s.phase);
        }
        Instruction::SetScale(s) => {
            subst_frame(&mut s.frame, qubits);
            sx(&mut s.scale);
        }
        Instruction::ShiftFrequency(s) => {
            subst_frame(&mut s.frame, qubits);
            sx(&mut s.frequency);
        }
        Instruction::ShiftPhase(s) => {
            subst_frame(&mut s.frame, qubits);
            sx(&mut s.phase);
        }
        Instruction::SwapPhases(s) => {
            subst_frame(&mut s.frame_1, qubits);
            subst_frame(&mut s.frame_2, qubits);
        }
        _ => {}
    }
    i
}

/// Replace uses of the measure calibration's target name by the measurement's target.
fn subst_target(i: &mut Instruction, formal: &str, actual: &MemoryReference) {
    match i {
        Instruction::Capture(c) if c.memory_reference.name == formal => c.memory_reference = actual.clone(),
        Instruction::RawCapture(c) if c.memory_reference.name == formal => c.memory_reference = actual.clone(),
        Instruction::Pragma(p) if p.name == "LOAD-MEMORY" && p.data.as_deref() == Some(formal) => {
            p.data = Some(actual.to_quil_or_debug());
        }
        _ => {}
    }
}

/// One expansion step: the substituted body of the matching calibration, with what matched.
pub enum Matched {
    Gate(usize),
    Measure(usize),
}

pub fn expand_once(set: &CalSet, i: &Instruction) -> Option<(Vec<Instruction>, Matched)> {
    match i {
        Instruction::Gate(g) => {
            let k = match_gate(set, g)?;
            let cal = &set.gates[k];
            let mut qubits = HashMap::new();
            for (cq, gq) in cal.identifier.qubits.iter().zip(g.qubits.iter()) {
                if let Qubit::Variable(v) = cq {
                    qubits.insert(v.clone(), gq.clone());
                }
            }
            let mut vars = HashMap::new();
            for (cp, gp) in cal.identifier.parameters.iter().zip(g.parameters.iter()) {
                if let Expression::Variable(v) = cp {
                    vars.insert(v.clone(), gp.clone());
                }
            }
            Some((cal.instructions.iter().map(|b| subst_instruction(b, &qubits, &vars)).collect(), Matched::Gate(k)))
        }
        Instruction::Measurement(m) => {
            let k = match_measure(set, m)?;
            let cal = &set.measures[k];
            let mut qubits = HashMap::new();
            if let Qubit::Variable(v) = &cal.identifier.qubit {
                qubits.insert(v.clone(), m.qubit.clone());
            }
            let vars = HashMap::new();
            let body = cal
                .instructions
                .iter()
                .map(|b| {
                    let mut x = subst_instruction(b, &qubits, &vars);
                    if let (Some(formal), Some(actual)) = (&cal.identifier.target, &m.target) {
                        subst_target(&mut x, formal, actual);
                    }
                    x
                })
                .collect();
            Some((body, Matched::Measure(k)))
        }
        _ => None,
    }
}

#[derive(Debug, Clone, PartialEq)]
pub enum Expansion {
    /// no matching calibration
    Unchanged,
    /// fully expanded instruction list (before hoisting) and the tree of what happened
    Expanded(Vec<Instruction>, Tree),
}

/// Record of one expansion: which calibration, and per body instruction of that calibration
/// either an unchanged instruction or a nested expansion, with the number of output instructions.
#[derive(Debug, Clone, PartialEq)]
pub struct Tree {
    pub gate_cal: Option<usize>,
    pub measure_cal: Option<usize>,
    pub children: Vec<Child>,
}

#[derive(Debug, Clone, PartialEq)]
pub enum Child {
    Unchanged(Instruction),
    Expanded(Vec<Instruction>, Tree),
}

#[derive(Debug, Clone, PartialEq)]
pub enum ExpandError {
    /// an instruction reappeared while it was being expanded
    Recursive(Instruction),
    /// no repeat within the depth cap: the expansion does not terminate
    Unbounded,
}

pub const DEPTH_CAP: usize = 120;

pub fn expand(set: &CalSet, i: &Instruction, path: &mut Vec<Instruction>) -> Result<Expansion, ExpandError> {
    if path.contains(i) {
        return Err(ExpandError::Recursive(i.clone()));
    }
    if path.len() > DEPTH_CAP {
        return Err(ExpandError::Unbounded);
    }
    let Some((body, matched)) = expand_once(set, i) else { return Ok(Expansion::Unchanged) };
    path.push(i.clone());
    let mut out = vec![];
    let mut children = vec![];
    for b in body {
        match expand(set, &b, path) {
            Ok(Expansion::Unchanged) => {
                out.push(b.clone());
                children.push(Child::Unchanged(b));
            }
            Ok(Expansion::Expanded(list, tree)) => {
                out.extend(list.iter().cloned());
                children.push(Child::Expanded(list, tree));
            }
            Err(e) => {
                path.pop();
                return Err(e);
            }
        }
    }
    path.pop();
    let (g, m) = match matched {
        Matched::Gate(k) => (Some(k), None),
        Matched::Measure(k) => (None, Some(k)),
    };
    Ok(Expansion::Expanded(out, Tree { gate_cal: g, measure_cal: m, children }))
}

/// Does this instruction land in a program's body when added (as opposed to a definition table)?
pub fn is_body_instruction(i: &Instruction) -> bool {
    !matches!(
        i,
        Instruction::Declaration(_)
            | Instruction::CalibrationDefinition(_)
            | Instruction::MeasureCalibrationDefinition(_)
            | Instruction::CircuitDefinition(_)
            | Instruction::FrameDefinition(_)
            | Instruction::GateDefinition(_)
            | Instruction::WaveformDefinition(_)
    ) && !matches!(i, Instruction::Pragma(p) if p.name == "EXTERN")
}
