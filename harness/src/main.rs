//! qv — property-based checks for quil-rs. See /verif/DESIGN.md.

use qv::engine::runner::{self, CheckArgs, StreamArgs};
use qv::engine::{self, Case, Tier};
use qv::{gen, props};
use std::path::PathBuf;

fn parse_tier(s: &str) -> Tier {
    match s {
        "quick" => Tier::Quick,
        "thorough" => Tier::Thorough,
        _ => {
            eprintln!("unknown tier {s}");
            std::process::exit(2)
        }
    }
}

fn opt(args: &[String], name: &str) -> Option<String> {
    args.iter().position(|a| a == name).and_then(|i| args.get(i + 1).cloned())
}

fn list(s: Option<String>) -> Vec<String> {
    s.map(|s| s.split(',').filter(|x| !x.is_empty()).map(|x| x.to_string()).collect()).unwrap_or_default()
}

/// Run `f` on a thread with a fixed 8 MiB stack so that stack-depth behaviour does not depend on
/// how the harness was launched.
fn on_fixed_stack(f: impl FnOnce() -> i32 + Send + 'static) -> i32 {
    std::thread::Builder::new().stack_size(8 << 20).spawn(f).expect("spawn").join().unwrap_or(101)
}

fn main() {
    let args: Vec<String> = std::env::args().collect();
    if args.len() < 2 {
        eprintln!("usage: qv check <ID> quick|thorough | qv replay <ID> <file> | qv list");
        std::process::exit(2);
    }
    let code = match args[1].as_str() {
        "list" => {
            for p in props::all() {
                println!("{}", p.id());
            }
            0
        }
        "check" => {
            let prop = props::find(&args[2]).unwrap_or_else(|| {
                eprintln!("unknown property {}", args[2]);
                std::process::exit(2)
            });
            let tier = parse_tier(args.get(3).map(|s| s.as_str()).unwrap_or("quick"));
            runner::check(prop, &|id| props::find(id), CheckArgs { tier, seed: runner::seed_from_env() })
        }
        "replay" => {
            let prop = props::find(&args[2]).expect("unknown property");
            runner::replay(prop, &PathBuf::from(&args[3]))
        }
        "stream" => {
            engine::install_panic_hook();
            let prop = props::find(&args[2]).expect("unknown property");
            let tier = parse_tier(&args[3]);
            let seed: u64 = args[4].parse().unwrap();
            let stream: u64 = args[5].parse().unwrap();
            let nstreams: u64 = args[6].parse().unwrap();
            let outdir = PathBuf::from(&args[7]);
            let resume: u64 = opt(&args, "--resume").and_then(|s| s.parse().ok()).unwrap_or(0);
            let active = list(opt(&args, "--active"));
            let known_sigs = list(opt(&args, "--known"))
                .into_iter()
                .filter_map(|kv| kv.rsplit_once('=').map(|(a, b)| (a.to_string(), b.to_string())))
                .collect();
            on_fixed_stack(move || {
                runner::run_stream(prop, StreamArgs { tier, seed, stream, nstreams, outdir, resume, active, known_sigs })
            })
        }
        "dump-corpus" => {
            // seed corpus for the libFuzzer targets: the spelling templates and the repository corpus
            let dir = PathBuf::from(&args[2]);
            std::fs::create_dir_all(&dir).expect("corpus dir");
            let mut n = 0;
            for t in gen::text::SPELLINGS.iter().chain(gen::text::DEFINITIONS.iter()) {
                std::fs::write(dir.join(format!("template-{n:03}")), t).expect("write");
                n += 1;
            }
            for t in gen::text::corpus().iter().filter(|t| t.len() <= 2048).take(300) {
                std::fs::write(dir.join(format!("corpus-{n:03}")), t).expect("write");
                n += 1;
            }
            println!("{n}");
            0
        }
        "c08-helper" => props::c08::helper_main(parse_tier(args.get(2).map(|s| s.as_str()).unwrap_or("quick"))),
        "one" => {
            engine::install_panic_hook();
            let prop = props::find(&args[2]).expect("unknown property");
            let bytes = std::fs::read(&args[3]).expect("case file");
            // accept either a bare case or a whole replay file
            let case: Case = serde_json::from_slice::<Case>(&bytes)
                .or_else(|_| serde_json::from_slice::<engine::ReplayFile>(&bytes).map(|r| r.case))
                .expect("case json");
            let active = list(opt(&args, "--active"));
            let tier = parse_tier(opt(&args, "--tier").as_deref().unwrap_or("quick"));
            on_fixed_stack(move || runner::run_one(prop, &case, active, vec![], tier))
        }
        other => {
            eprintln!("unknown command {other}");
            2
        }
    };
    std::process::exit(code);
}
