#!/usr/bin/env python3
"""Regenerate MANIFEST.json from the table below (developer aid; the manifest itself is committed)."""
import json
props = [json.loads(l) for l in open('/verif/properties.jsonl')]

# id -> (level text, level note, technique)
CHECKS = {
 "C30": ("Random programs over four regions (undeclared or declared REAL/INTEGER/BIT/OCTET) with bodies mixing SET-*/SHIFT-* (expressions of depth <= 3/4 with addresses, real and complex numbers, pi, variables, functions, prefix and infix operators) and classical instructions of every kind and operand form; checks the decomposition ok(P) <=> every instruction alone is ok, the reference real-valued rule for SET-*/SHIFT-*, invariance under a permuted region naming (same choices decoded twice), under reordering, duplication and DECLARE position, and independence of declared lengths.",
         "No reference table for the classical instructions' typing (the statement gives rules only for SET-*/SHIFT-*); those are covered by the metamorphic relations.",
         "property-based testing: proptest-generated programs; metamorphic relations + reference rule"),
 "C31": ("Random extern signatures (optional return, up to 4/6 scalar / fixed / variable-length vector parameters, mutability, random identifiers) round-tripped through ExternSignature::from_str and through PRAGMA EXTERN in a program (API-built and printed/parsed); 4 CALLs per signature with arguments aimed at or away from their slots over 7 declared regions and an undeclared one, decided by a reference resolver (Ok/Err and, on Ok, kinds/types/regions/mutability).",
         "Identifier in a scalar slot = index 0 (rustdoc of UnresolvedCallArgument); the return slot is reported mutable; index bounds of references are not part of the statement and not asserted.",
         "property-based testing: proptest-generated signatures and calls; round-trip + reference-model oracle"),
 "C32": ("Random parameter tuples for the 7 built-in waveform kinds with durations aligned by construction (m / rate), exact or clearly fractional paddings, bounded shape parameters; checks the sample count, defaults, samples(scale s, phase p) = s e^{2 pi i p} samples(1, 0) entrywise, zero scale => zeros, and the partial API (all known => exactly the concrete samples; one parameter unknown => placeholder of the same length, or zeros for a known zero scale).",
         "Shapes themselves are not re-derived (snapshot-tested upstream); detuning is kept below the sample rate so that the accumulated phase is well-conditioned; tolerance 1e-9.",
         "property-based testing: proptest-generated parameters; metamorphic (linearity, phase, partial-vs-concrete) oracle"),
 "C33": ("Random programs (definitions of every kind + straight-line body) wrapped for n in 0..6 (quick) / 0..40 (thorough) with a fresh counter region and a fixed or placeholder start label; for n >= 2 the wrapped body is executed by a reference interpreter that follows only the counter cell and the control flow, and the trace of every other instruction must be the original body exactly n times, reaching the end within a step bound; n = 1 must equal the original, n = 0 must drop only the body; all original definitions must be present and unchanged in every case.",
         "JUMP-WHEN taken iff the cell is non-zero (Quil spec / the method's rustdoc). The shape of the loop is not prescribed; a loop the interpreter cannot follow is counted as undecided and a generator-health floor turns a run with too few executed cases into exit 2.",
         "property-based testing: proptest-generated programs, executable reference interpreter (trace oracle)"),
 "C34": ("Random bodies over every qubit-bearing instruction kind and every target-bearing instruction, slots filled with fixed qubits, 4 shared qubit placeholders, variables, 3 label placeholders (two with the same base) and fixed labels that collide with the default suffix scheme; default resolution is checked position by position with an independent traversal (no placeholder left, same placeholder same value, distinct placeholders distinct values, no collision with fixed qubits / labels / jump targets of the body, nothing else changed), then custom resolvers for a random subset must replace exactly that subset.",
         "The traversal of qubit-bearing fields is the harness's own (includes SET-*/SHIFT-*/SWAP-PHASES frames).",
         "property-based testing: proptest-generated bodies, validity-predicate oracle with an independent traversal"),
 "C35": ("Random programs over small frame / waveform / extern / calibration alphabets (undefined frames and waveforms, uncalled and malformed externs, calibrations that hoist DECLAREs, invoke waveforms and CALL); simplify(DefaultHandler) is compared with expand_calibrations: same body, no calibrations, frames = those the reference frame matcher reports as used by the expanded body, waveforms = those invoked, externs = those called, declarations / gate definitions / circuits untouched, and per block both schedules fail or are bit-identical.",
         "Frames 'used' follow the reference model of C26; bare RESET is not generated; a schedule that exists only after simplification is not compared (the statement speaks of computed schedules).",
         "property-based testing: proptest-generated programs; differential oracle (simplify vs expand) + reference frame model"),
 "C08": ("Random instruction sequences with several definitions of each kind (keys from small pools so that redefinition happens, 4 frame identifiers) are built into a Program by 10 routes in one process and, for a sample, in a second process; every route must print byte-identical text, and the listing within each definition kind must equal an insertion-ordered reference map (first insertion fixes the position, redefinition replaces in place).",
         "Order between definition kinds is not asserted (the statement is silent); the route through text is used only when the parser reads back an equal program.",
         "property-based testing: proptest-generated instruction sequences; metamorphic (same input, many construction routes, two processes) + reference-model oracle"),
 "C09": ("Random instruction sequences (all definition kinds incl. named, unnamed and non-identifier PRAGMA EXTERN, redefinitions, body instructions) added one by one; to_instructions vs into_instructions, rebuild from either listing (==, text, listing), body order through three accessors, and last-value-per-key against the reference map.",
         "Definition order within a kind is left to C08.",
         "property-based testing: proptest-generated instruction sequences; differential (two listings), round-trip and reference-model oracle"),
 "C10": ("Random histories of up to 8/20 public operations over 1-3 live programs (build, add, +, +=, clone without body, placeholder resolution default/custom, both calibration-expansion entry points, both gate-sequence-expansion entry points under all 8 filters, simplify, wrap_in_loop, filter_instructions, dagger, parse of the printed text); after every step every live program's used-qubit set is compared with the union of Instruction::get_qubits over its listing, and program equality with a rebuild from its listing and between live programs with equal listings.",
         "'Qubits mentioned' is the library's own Instruction::get_qubits. Known finding c10-clone-without-body-drops-definition-qubits is attributed only when nothing but qubits that no body instruction mentions is missing and the program went through an operation that empties the cache; anything else is reported.",
         "property-based testing: proptest-generated operation histories (vector of ops + interpreter, shrinks as one value), invariant checked after every step"),
 "C11": ("Random pairs (A, B) over the shared definition generator with B steered towards A's keys; A+B and A+=B are compared with each other and with a reference merge (body appended, B wins on common keys, all others kept), the used-qubit set with the union, and both identity laws with ==, listing, text and used qubits.",
         "Used-qubit clause read together with C10: a qubit that only a replaced definition of A mentioned may be absent from A+B; every other qubit of the union must be present and nothing else.",
         "property-based testing: proptest-generated program pairs against a reference merge model + algebraic identity laws"),
 "C16": ("Random calibration sets over small alphabets with queries that instantiate a definition (so several candidates match), compared with a reference matcher for gates and measurements, the insertion-ordered set semantics, and the body chosen by expand_calibrations.",
         "Parameter alphabet chosen so that equal constant value and the library's equal-after-simplification coincide; placeholder qubits are not generated (the statement is silent).",
         "property-based testing: proptest-generated calibration sets and queries against a reference matcher"),
 "C17": ("Random programs with gate and measure calibrations (variable qubits, %-parameters, nesting, hoisted declarations) expanded by the library and by a reference expander; bodies, hoisted regions, fix-point and the with/without-source-map variants are compared.",
         "Programs the reference classifies as recursive are left to C18; target-name uses are modelled for CAPTURE, RAW-CAPTURE and PRAGMA LOAD-MEMORY.",
         "property-based testing: proptest-generated programs against a reference expander (differential oracle)"),
 "C18": ("Random and hand-shaped recursive / growing calibration sets; the reference expander classifies each program as finite, recursive or unbounded and the library must return Ok, the recursive-calibration error, or (unbounded) simply return, inside a child process with a fixed stack and a watchdog.",
         "Termination is bounded-time evidence (20 s watchdog per case); 'unbounded' means no repeat within 120 nested expansions of the reference.",
         "property-based testing: proptest-generated programs, reference-model classification, crash/hang containment in a child process"),
 "C19": ("Random programs of the C17 generator (nesting, parameters, measure calibrations, DECLAREs hoisted out of calibration bodies) expanded with a source map; validity predicates over (output, map) with the reference expander's tree saying what each range must hold: one entry per source in order, unmodified targets identical, ranges contiguous/disjoint/covering, nested records parent-relative and covering their parent, list_sources/list_targets inverse at top level and inside every nested map.",
         "Programs the reference classifies as recursive are left to C18. Known finding c19-hoist-nested-records: nested records of an expansion that hoists an instruction are attributed to the finding only when they equal, record for record, what remove_target_index is known to leave; everything else in such a program is still checked.",
         "property-based testing: proptest-generated programs, validity-predicate oracle backed by a reference expander"),
 "C29": ("All instruction sequences up to length 3/4 over a 21-letter gate/measure alphabet and random longer ones, for every threshold 0..4, compared with a longest-chain dynamic programme.",
         "Sequence length bounded because the implementation enumerates paths; distinct qubits per gate.",
         "property-based testing: exhaustive small-scope enumeration + proptest random sequences against a reference DP"),
 "C22": ("Random multi-block programs over a few frames, RF, classical and control-flow instructions; every block's dependency graph is checked for acyclicity, forward-pointing edges and (when every RF instruction matches a frame) reachability from block start and to block end.",
         "Bounded program length; default instruction handler only.",
         "property-based testing: proptest-generated programs, graph-validity predicates"),
 "C23": ("Through the cfg hook every access sequence up to length 6/8 is fed to the dependency queue and compared with a reference bookkeeping model; every short program over a 10-instruction memory-access alphabet plus random blocks are checked for ordering of conflicting pairs and justification of every memory edge.",
         "Accesses are those reported by DefaultHandler::memory_accesses (checked in C27); bounded lengths.",
         "property-based testing: exhaustive small-scope enumeration (hook + programs) and proptest random blocks; reference-model and validity-predicate oracle"),
 "C24": ("Through the cfg hook every frame-queue access sequence up to length 8/11 is compared with the reference bookkeeping; random blocks over overlapping frames are checked for StableOrdering/Scheduled paths between conflicting pairs and for justification of every frame edge.",
         "used/blocked sets are those reported by DefaultHandler::matching_frames (checked in C26); bounded lengths.",
         "property-based testing: exhaustive queue sequences via hook + proptest random blocks; reference-model and validity-predicate oracle"),
 "C25": ("Random single-block timed programs with exactly representable durations compared exactly with a conflict-based ASAP reference scheduler (durations, starts, exclusivity, total duration, starts vs the graph's timed predecessors), and a calibrated variant comparing source spans with hulls of the reference schedule of the expansion.",
         "Durations are dyadic rationals (exact float arithmetic); calibrations in the calibrated variant are parameter-free fixed-qubit ones.",
         "property-based testing: proptest-generated programs against a reference ASAP scheduler (differential oracle)"),
 "C26": ("Complete enumeration of all 256 subsets of an 8-frame universe times 342 frame-related instructions (incl. undefined frames), compared with a reference written from the Quil-T rules; random repeats with the instruction in the program body.",
         "Universe limited to 3 qubits x 3 names; bare RESET only checked for the general invariants.",
         "property-based testing: exhaustive enumeration against a reference model"),
 "C27": ("Random single instructions of every body kind with all operand forms and nested expressions, and CALLs against generated extern signatures, compared exactly with an access table written from the instruction semantics.",
         "Region alphabet of 3 names; CALLs with a wrong argument count only have to return.",
         "property-based testing: proptest-generated instructions against a reference table"),
 "C14": ("Complete enumeration of the 22 standard gates over every injective qubit placement into up to 4 (quick) / 5 (thorough) qubits at 7 special parameters, plus sampled real parameters in four spellings, compared entrywise with matrices typed from the Quil specification and lifted by an independent bit-manipulation lifter.",
         "The reference matrices and the lifting convention are the harness's transcription of Quil spec section 4.3; continuous parameters are sampled.",
         "property-based testing: exhaustive placement enumeration + proptest-sampled parameters against a reference-model oracle"),
 "C15": ("Random modifier stacks (depth <= 4) over standard gates built three ways, and random gate-only programs, compared with a recursive reference semantics of DAGGER/CONTROLLED/FORKED and with metamorphic relations (U U^dagger = I, dagger = adjoint, program = ordered product, dagger program = adjoint).",
         "Reference semantics: the leftmost modifier is outermost and owns the first qubit (Quil spec 4.4 and the builder methods' own convention); parameters sampled; <= 5 qubits.",
         "property-based testing: proptest-generated modifier stacks and programs; reference-model + metamorphic oracle"),
 "C13": ("Random expression trees with random partial assignments; substitution/evaluation compared bit-for-bit (metamorphic), memory-reference listing compared with a model traversal, success/failure of evaluation compared with a model completeness predicate and the value with a reference evaluator.",
         "Value comparison against the reference evaluator only where the reference is well-conditioned (1e-9); the Ok/Err and bit-identity clauses are exact.",
         "property-based testing: proptest-generated trees and partial assignments; metamorphic + reference-model oracle"),
 "C03": ("Random expression trees (finite literal zoo, nested prefixes, complex operands, ^ chains) printed with the real serializer, re-parsed with the real parser and compared by value at three assignments; bounded depth, sampled assignments.",
         "Uses the library evaluator on both sides (the inverse is the oracle); the reference evaluator is used only to screen points on branch cuts.",
         "property-based testing: proptest-generated trees, print/parse round-trip oracle, value comparison"),
 "C12": ("Random expression trees with shared subterms, simplified by the library and compared against an independent reference evaluator at three generic assignments after conditioning screens; bounded depth; sampled assignments.",
         "Points that are non-finite, on a branch cut, have a zero power base or are ill-conditioned are not compared; literals avoid the simplifier's documented 1e-10 folding threshold.",
         "property-based testing: proptest-generated trees against a reference-evaluator (differential) oracle"),
 "C28": ("Exhaustive enumeration of all short bodies over the control-flow alphabet plus random longer bodies, each checked against a block-reconstruction oracle; bounded, so no claim beyond the explored sizes.",
         "Trusts Program::from_instructions/body_instructions to expose the body; INCLUDE not generated (excepted by the statement).",
         "property-based testing: exhaustive small-scope enumeration + proptest random bodies against a reconstruction oracle"),
}
HOOK_COMMITS = ["8780690"]

checks = []
for p in props:
    i = p['id']
    if i in CHECKS:
        text, note, tech = CHECKS[i]
        checks.append({
            "property_id": i,
            "quick_cmd": f"./check {i} quick",
            "thorough_cmd": f"./check {i} thorough",
            "evidence_file": f"evidence/{i}.json",
            "replay_cmd_template": f"./check {i} --replay {{path}}",
            "engine": "qv",
            "level_claimed": {"category": "exploration", "text": text, "design_ref": f"DESIGN.md §5 {i}"},
            "level_note": note,
            "technique": tech,
        })
na = [{"property_id": p['id'], "reason": "check not built yet (in progress; planned in DESIGN.md §5) — property-based testing does apply, nothing is claimed until the check exists"}
      for p in props if p['id'] not in CHECKS]
m = {
  "version": 1,
  "setup_cmd": "./check --build",
  "hooks": {
    "guard": "--cfg rigetti_quil_rs_verif",
    "enable": "RUSTFLAGS=\"--cfg rigetti_quil_rs_verif\" (set by ./check for the harness build, which compiles /repo/quil-rs as a path dependency from the current working tree)",
    "baseline_off_cmd": "cd /repo && cargo nextest run --workspace --no-fail-fast --test-threads 8 --offline",
    "source_commits": HOOK_COMMITS,
    "add_only": True,
  },
  "engines": [
    {"name": "qv", "path": "harness", "serves_properties": sorted(CHECKS),
     "kind_free_text": "Rust binary: proptest-driven choice-vector generators and exhaustive enumerations, one oracle per property, streams run in child processes (crash/hang containment), shrinking to a replay file"}
  ],
  "checks": checks,
  "not_applicable": na,
  "notes": "Exit codes: 0 held, 1 violation (VIOLATION line), 2 inconclusive/infrastructure. KNOWN_FINDINGS.txt lists known findings and fixed defects; regressions/ holds their replay files.",
}
json.dump(m, open('/verif/MANIFEST.json', 'w'), indent=1)
print("claimed", len(checks), "n/a", len(na))
