#!/bin/bash
# fuzz/run.sh <C01|C02> <runs-per-worker> [workers]
# Coverage-guided addition to the thorough tier of C01 / C02 (libFuzzer through cargo-fuzz).
# Exit: 0 nothing found / 1 violation confirmed through the qv oracle (VIOLATION line) /
#       2 inconclusive (no nightly toolchain or cargo-fuzz, build failure, unconfirmed artifact).
set -u
ID="$1"; RUNS="${2:-200000}"; WORKERS="${3:-8}"
ROOT="$(cd "$(dirname "${BASH_SOURCE[0]}")/.." && pwd)"
SEED="${VERIF_SEED:-1}"
case "$ID" in C01) TARGET=c01_parse ;; C02) TARGET=c02_roundtrip ;; *) echo "[fuzz] no target for $ID" >&2; exit 2 ;; esac
export CARGO_NET_OFFLINE=true
if ! cargo +nightly fuzz --version >/dev/null 2>&1; then echo "[fuzz] cargo +nightly fuzz unavailable; coverage-guided stage skipped" >&2; exit 2; fi
cd "$ROOT/fuzz"
[ -f Cargo.lock ] || cp "$ROOT/harness/Cargo.lock" Cargo.lock
if ! cargo +nightly fuzz build --fuzz-dir "$ROOT/fuzz" "$TARGET" > "$ROOT/fuzz/build-$TARGET.log" 2>&1; then
  echo "[fuzz] build of $TARGET failed:" >&2; tail -20 "$ROOT/fuzz/build-$TARGET.log" >&2; exit 2
fi
RUN="$ROOT/fuzz/corpus-run/$TARGET-$$"
rm -rf "$RUN"; mkdir -p "$RUN/corpus" "$RUN/artifacts"
"$ROOT/harness/target/release/qv" dump-corpus "$RUN/corpus" > /dev/null
BIN="$ROOT/fuzz/target/x86_64-unknown-linux-gnu/release/$TARGET"
T0=$(date +%s)
( cd "$RUN" && "$BIN" corpus -runs="$RUNS" -seed="$SEED" -max_len=2048 -len_control=0 -dict="$ROOT/fuzz/quil.dict" \
    -artifact_prefix="$RUN/artifacts/" -jobs="$WORKERS" -workers="$WORKERS" -timeout=60 -report_slow_units=60 -print_final_stats=1 -rss_limit_mb=4096 > "$RUN/driver.log" 2>&1 )
RC=$?
T1=$(date +%s)
EXECS=$(grep -h "stat::number_of_executed_units" "$RUN"/fuzz-*.log 2>/dev/null | awk '{s+=$2} END {print s+0}')
COV=$(grep -h " cov: " "$RUN"/fuzz-*.log 2>/dev/null | sed -E 's/.* cov: ([0-9]+).*/\1/' | sort -n | tail -1)
CORPUS=$(ls "$RUN/corpus" | wc -l)
ARTIFACTS=$(ls "$RUN/artifacts" 2>/dev/null | wc -l)
echo "[fuzz] $TARGET: workers=$WORKERS runs/worker=$RUNS executed=${EXECS:-0} cov=${COV:-0} corpus=$CORPUS artifacts=$ARTIFACTS wall=$((T1-T0))s rc=$RC"
EVDIR="${VERIF_EVIDENCE_DIR:-$ROOT/evidence}"
python3 - "$EVDIR/$ID.json" "$TARGET" "${EXECS:-0}" "${COV:-0}" "$CORPUS" "$ARTIFACTS" "$WORKERS" "$RUNS" "$((T1-T0))" <<'PY'
import json,sys
f,target,execs,cov,corpus,art,workers,runs,wall=sys.argv[1:]
try:
    e=json.load(open(f))
except Exception:
    sys.exit(0)
e.setdefault('coverage',{})['libfuzzer']={"target":target,"executions":int(execs),"edge_coverage":int(cov),"corpus_files":int(corpus),"artifacts":int(art),"workers":int(workers),"runs_per_worker":int(runs),"wall_s":int(wall),"seed_corpus":"spelling templates + repository corpus (qv dump-corpus)","dictionary":"fuzz/quil.dict"}
json.dump(e,open(f,'w'),indent=1)
PY
STATUS=0
for a in "$RUN"/artifacts/*; do
  [ -f "$a" ] || continue
  H=$(sha1sum "$a" | cut -c1-16)
  OUT="$ROOT/replays/$ID-fuzz-$H.json"
  mkdir -p "$ROOT/replays"
  python3 - "$a" "$OUT" "$ID" <<'PY'
import json,sys
data=open(sys.argv[1],'rb').read().decode('utf-8','replace')
json.dump({"property":sys.argv[3],"case":{"Text":data},"signature":"fuzz:artifact","message":"input saved by libFuzzer","rendering":data[:400]},open(sys.argv[2],'w'),indent=1)
PY
  R0=$(date +%s)
  if "$ROOT/harness/target/release/qv" replay "$ID" "$OUT" > "$RUN/replay-$H.log" 2>&1; then
    R1=$(date +%s)
    case "$(basename "$a")" in
      timeout-*|slow-unit-*|oom-*)
        # libFuzzer's per-input wall-clock / memory limits fire under machine load; an input the same
        # oracle handles in a few seconds on its own is load noise, not a finding
        if [ $((R1-R0)) -le 20 ]; then echo "[fuzz] $(basename "$a") replays cleanly in $((R1-R0))s: load noise, discarded" >&2; rm -f "$OUT"; continue; fi ;;
    esac
    echo "[fuzz] artifact $(basename "$a") does not reproduce through the qv oracle (kept as $OUT)" >&2
    [ $STATUS -eq 0 ] && STATUS=2
  else
    tail -3 "$RUN/replay-$H.log" | grep -v '^VIOLATION' >&2
    echo "VIOLATION property=$ID replay=$OUT"
    STATUS=1
    break
  fi
done
[ $STATUS -eq 0 ] && rm -rf "$RUN"
exit $STATUS
