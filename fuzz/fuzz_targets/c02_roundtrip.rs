#![no_main]
//! C02, coverage-guided: a text that parses must print, re-parse to an equal program, and print
//! byte-identically again. The oracle is inside the target; a violation panics so that libFuzzer
//! saves the input, which `./check C02 --replay` then runs through the same oracle.
use libfuzzer_sys::fuzz_target;
use quil_rs::quil::Quil;
use quil_rs::Program;
use std::str::FromStr;

fuzz_target!(|data: &[u8]| {
    let t = String::from_utf8_lossy(data);
    let Ok(p) = Program::from_str(&t) else { return };
    // known finding c02-delay-function-named-qubit (KNOWN_FINDINGS.txt): excluded by construction so
    // that the campaign searches behind it; its regression is replayed by the qv stage of the check
    let ambiguous_delay = |i: &quil_rs::instruction::Instruction| match i {
        quil_rs::instruction::Instruction::Delay(d) => {
            d.frame_names.is_empty()
                && matches!(d.qubits.last(), Some(quil_rs::instruction::Qubit::Variable(v)) if ["sin", "cos", "sqrt", "exp", "cis"].contains(&v.to_lowercase().as_str()))
        }
        _ => false,
    };
    fn nested(i: &quil_rs::instruction::Instruction) -> &[quil_rs::instruction::Instruction] {
        match i {
            quil_rs::instruction::Instruction::CalibrationDefinition(c) => &c.instructions,
            quil_rs::instruction::Instruction::MeasureCalibrationDefinition(c) => &c.instructions,
            quil_rs::instruction::Instruction::CircuitDefinition(c) => &c.instructions,
            _ => &[],
        }
    }
    if p.to_instructions().iter().any(|i| ambiguous_delay(i) || nested(i).iter().any(ambiguous_delay)) {
        return;
    }
    let s1 = match p.to_quil() {
        Ok(s) => s,
        Err(e) => panic!("C02: parsed program does not serialize: {e:?}"),
    };
    let p2 = match Program::from_str(&s1) {
        Ok(p) => p,
        Err(e) => panic!("C02: serialization does not parse: {e}\n{s1}"),
    };
    assert!(p2 == p, "C02: re-parsed program differs\n{s1}");
    assert!(p2.to_quil().ok().as_deref() == Some(s1.as_str()), "C02: second print differs");
});
