#![no_main]
//! C01, coverage-guided: any byte string (read as lossy UTF-8) goes through the five parsing entry
//! points; values are serialized and errors formatted. A panic / overflow / abort is the finding —
//! libFuzzer saves the input, which `./check C01 --replay` then runs through the same oracle.
use libfuzzer_sys::fuzz_target;
use quil_rs::expression::Expression;
use quil_rs::instruction::{FrameIdentifier, Instruction, MemoryReference};
use quil_rs::quil::Quil;
use quil_rs::Program;
use std::str::FromStr;

fn show<T, E: std::fmt::Display + std::fmt::Debug>(r: Result<T, E>, ok: impl FnOnce(&T) -> usize) -> usize {
    match r {
        Ok(v) => ok(&v),
        Err(e) => format!("{e}").len() + format!("{e:#}").len() + format!("{e:?}").len(),
    }
}

fuzz_target!(|data: &[u8]| {
    let t = String::from_utf8_lossy(data);
    let mut n = 0usize;
    n += show(Program::from_str(&t), |p| p.to_quil().map(|s| s.len()).unwrap_or(0) + p.to_quil_or_debug().len());
    n += show(Instruction::from_str(&t), |i| i.to_quil().map(|s| s.len()).unwrap_or(0));
    n += show(Expression::from_str(&t), |e| e.to_quil().map(|s| s.len()).unwrap_or(0));
    n += show(MemoryReference::from_str(&t), |m| m.to_quil().map(|s| s.len()).unwrap_or(0));
    n += show(FrameIdentifier::from_str(&t), |f| f.to_quil().map(|s| s.len()).unwrap_or(0));
    std::hint::black_box(n);
});
