#!/usr/bin/env python3-vt
"""Validate MANIFEST.json and every evidence file against the schemas (developer aid)."""
import json, sys, glob, jsonschema
m = json.load(open('/verif/MANIFEST.json'))
jsonschema.validate(m, json.load(open('/root/.vp/MANIFEST.schema.json')))
es = json.load(open('/root/.vp/EVIDENCE.schema.json'))
props = [json.loads(l)['id'] for l in open('/verif/properties.jsonl')]
claimed = [c['property_id'] for c in m['checks']]
na = [c['property_id'] for c in m.get('not_applicable', [])]
bad = 0
for f in sorted(glob.glob('/verif/evidence/*.json')):
    try:
        jsonschema.validate(json.load(open(f)), es)
    except Exception as e:
        bad += 1
        print('INVALID', f, str(e)[:300])
import os
for c in m['checks']:
    f = '/verif/' + c['evidence_file']
    if not os.path.exists(f):
        bad += 1
        print('MISSING evidence for claimed', c['property_id'])
        continue
    e = json.load(open(f))
    cov = e.get('coverage', {})
    # evidence committed for the unchanged tree must be a record of a quiet run
    if e.get('property_id') != c['property_id'] or e.get('violations', 0) != 0 or 'violation' in cov or 'inconclusive' in cov:
        bad += 1
        print('NOT A QUIET RUN', f, {k: e.get(k) for k in ('property_id', 'violations')}, [k for k in ('violation', 'inconclusive') if k in cov])
unclaimed = [f for f in glob.glob('/verif/evidence/*.json') if os.path.basename(f)[:-5] not in claimed]
if unclaimed:
    bad += 1
    print('evidence for unclaimed properties:', unclaimed)
missing = [p for p in props if p not in claimed and p not in na]
print('manifest ok; claimed', len(claimed), 'n/a', len(na), 'unaccounted', missing, 'bad evidence', bad)
sys.exit(1 if bad else 0)
