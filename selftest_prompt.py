#!/usr/bin/env python3
"""Print the prompt given to an independent sub-agent that seeds a property-breaking change (developer aid)."""
import json, sys
pid = sys.argv[1]
wt = sys.argv[2]
p = [json.loads(l) for l in open('/verif/properties.jsonl') if json.loads(l)['id'] == pid][0]
print(f"""You are helping to evaluate a verification effort for the Rust crate rigetti/quil-rs (a Quil quantum-instruction-language toolkit: parser, AST, program builder, calibration expansion, scheduling). You have your own scratch git worktree of the repository at {wt} (detached HEAD). Work ONLY inside {wt}; never touch /repo or /verif and do not read anything under /verif.

Here is a semantic property that the library is supposed to satisfy:

  Title: {p['title']}
  Statement: {p['statement']}
  Quantified over: {p['quantifier']['text']}

Your task: produce ONE realistic code change (a plausible bug a maintainer could introduce: a refactor slip, an off-by-one, a wrong operator, a forgotten case, two sites that each look fine alone) to the library source under {wt}/quil-rs/src that BREAKS this property, while
  (1) the workspace still compiles, and
  (2) the existing test suite still passes completely: run it with
        cd {wt} && CARGO_NET_OFFLINE=true cargo nextest run --workspace --no-fail-fast --test-threads 4 --offline
      (there is no network; about 3 minutes including the first build; 2981 tests must pass, 0 failures), and
  (3) the break needs something specific to manifest — an unusual input, a particular multi-step sequence of operations, a particular combination of features, or two cooperating sites — not something ordinary use or a trivial example would expose at once. Prefer subtle semantic changes over crashes.

Also write a demonstration: a small Rust integration test file at {wt}/quil-rs/tests/seeded_demo.rs (using only the public API of the crate `quil_rs`) that FAILS with your change and PASSES without it. Verify both directions yourself WITHOUT `git stash` (the stash is shared between worktrees and other agents use it): `git diff -- quil-rs/src > {wt}.patch && git apply -R {wt}.patch`, run `cargo test --offline -p quil-rs --test seeded_demo` (must pass), then `git apply {wt}.patch` and run it again (must fail).

When done, leave in {wt}:
  - the source change applied in the working tree (uncommitted),
  - quil-rs/tests/seeded_demo.rs,
  - a file {wt}/SEEDED.md with: which file/function you changed and why it breaks the property, what exactly is needed for the break to manifest, and the commands you ran with their outcomes.
Do not commit. Do not modify existing tests or snapshots. Keep the change small (ideally under 15 changed lines). Do not change the public API signatures. Report back a short summary (changed file, idea, what manifests it, test results).""")
