#![no_main]
//! Coverage-guided search over choice vectors, for any property of the harness.
//!
//! The input bytes are read as big-endian 16-bit units; unit `x` becomes the choice word
//! `x << 16 | x` (see `qv::engine::words_from_guided_bytes`), so one or two bytes decide one choice
//! of the property's generator and libFuzzer's byte mutations are choice mutations. The property's
//! own oracle runs inside the target; a failure that is not an active known finding aborts, so that
//! libFuzzer saves the input, which the `qv` parent then confirms, minimises and turns into an
//! ordinary choice-vector replay file (no libFuzzer in the replay path).
//!
//! Environment (set by `qv check <ID> thorough`): QV_GUIDED_PROP, QV_GUIDED_ACTIVE (comma list),
//! QV_GUIDED_KNOWN (comma list of sig=id), QV_GUIDED_ARTIFACTS (directory), QV_GUIDED_TIMEOUT_S.
//!
//! libFuzzer's own per-input timeout runs in a signal handler that allocates (observed: a worker
//! deadlocked inside malloc when the alarm fired during a realloc), so it is switched off by the
//! parent and a watchdog thread of the target saves the current input as `timeout-*` and exits.
use libfuzzer_sys::fuzz_target;
use qv::engine::runner::{run_case, CaseVerdict};
use qv::engine::{words_from_guided_bytes, Case, Ctx, Property, Tier};
use std::sync::atomic::{AtomicU64, Ordering};
use std::sync::{Mutex, OnceLock};
use std::time::{Duration, Instant};

struct Setup {
    prop: &'static dyn Property,
    ctx: Ctx,
}
// the property statics are Sync; Ctx is plain data
unsafe impl Sync for Setup {}
unsafe impl Send for Setup {}

static SETUP: OnceLock<Setup> = OnceLock::new();
static CURRENT: Mutex<Vec<u8>> = Mutex::new(Vec::new());
/// Milliseconds (+1) since the watchdog's epoch at which the current case started; 0 = idle.
static STARTED: AtomicU64 = AtomicU64::new(0);
static EPOCH: OnceLock<Instant> = OnceLock::new();

fn start_watchdog() {
    let limit_ms = std::env::var("QV_GUIDED_TIMEOUT_S").ok().and_then(|v| v.parse::<u64>().ok()).unwrap_or(60) * 1000;
    let dir = std::env::var("QV_GUIDED_ARTIFACTS").unwrap_or_else(|_| ".".into());
    let epoch = *EPOCH.get_or_init(Instant::now);
    std::thread::spawn(move || loop {
        std::thread::sleep(Duration::from_millis(250));
        let s = STARTED.load(Ordering::SeqCst);
        if s != 0 && (epoch.elapsed().as_millis() as u64 + 1).saturating_sub(s) > limit_ms {
            let data = CURRENT.lock().map(|d| d.clone()).unwrap_or_default();
            let name = format!("{dir}/timeout-{}-{}", std::process::id(), s);
            let _ = std::fs::write(&name, &data);
            eprintln!("[guided] case exceeds {} s; input saved as {name}", limit_ms / 1000);
            unsafe { libc::_exit(71) }
        }
    });
}

fn list(name: &str) -> Vec<String> {
    std::env::var(name).map(|s| s.split(',').filter(|x| !x.is_empty()).map(|x| x.to_string()).collect()).unwrap_or_default()
}

fuzz_target!(|data: &[u8]| {
    let setup = SETUP.get_or_init(|| {
        // libfuzzer-sys installs a hook that aborts on every panic; the harness catches panics of
        // the code under test itself (they are verdicts), so put its own hook back
        qv::engine::install_panic_hook();
        start_watchdog();
        let id = std::env::var("QV_GUIDED_PROP").expect("QV_GUIDED_PROP");
        let prop = qv::props::find(&id).expect("unknown property");
        let known_sigs = list("QV_GUIDED_KNOWN").into_iter().filter_map(|kv| kv.rsplit_once('=').map(|(a, b)| (a.to_string(), b.to_string()))).collect();
        Setup { prop, ctx: Ctx { tier: Tier::Thorough, render: false, seed: 0, active: list("QV_GUIDED_ACTIVE"), known_sigs } }
    });
    let case = Case::raw(words_from_guided_bytes(data));
    if let Ok(mut cur) = CURRENT.lock() {
        cur.clear();
        cur.extend_from_slice(data);
    }
    STARTED.store(EPOCH.get_or_init(Instant::now).elapsed().as_millis() as u64 + 1, Ordering::SeqCst);
    let (verdict, _) = run_case(setup.prop, &case, &setup.ctx);
    STARTED.store(0, Ordering::SeqCst);
    match verdict {
        CaseVerdict::Pass | CaseVerdict::Skip | CaseVerdict::Known(_) => {}
        CaseVerdict::Fail(f) => {
            eprintln!("[guided] {}: {}", f.sig, f.msg.chars().take(400).collect::<String>());
            std::process::abort();
        }
        CaseVerdict::HarnessError(m) => {
            eprintln!("[guided] harness error: {m}");
            std::process::abort();
        }
    }
});
